#!/usr/bin/env python3
"""mutcheck.py <mutant dir> <property> [more properties]  — confirm a seeded change and run the checks against it.

  1. scratch worktree of /repo HEAD under /tmp (removed afterwards), patch applied there
  2. the demonstration (run.sh <tree>) must pass on the clean tree and fail on the changed tree
  3. the repository's own test-suite must still pass on the changed tree
  4. each property's quick check is run with VERIF_REPO=<changed tree>; exit 1 + VIOLATION = detected
Prints a JSON summary (used for seeded/<id>/meta.json)."""
import json, os, shutil, subprocess, sys, tempfile, time

def sh(cmd, **kw):
    return subprocess.run(cmd, shell=True, capture_output=True, text=True, errors="replace", **kw)

def main():
    args = [a for a in sys.argv[1:] if a != "--checks-only"]
    checks_only = "--checks-only" in sys.argv      # regression runs over seeded/: the change was confirmed when it was imported
    mdir = os.path.abspath(args[0]); props = args[1:]
    patch = os.path.join(mdir, "patch.diff")
    wt = tempfile.mkdtemp(prefix="mutwt_")
    os.rmdir(wt)
    out = {"mutant": mdir, "properties": props}
    try:
        r = sh("git -C /repo worktree add -q --detach %s HEAD" % wt)
        if r.returncode: raise SystemExit("worktree: " + r.stderr)
        # demo on the clean tree
        run = os.path.join(mdir, "run.sh")
        if os.path.exists(run) and not checks_only:
            c = sh("sh %s %s" % (run, wt), timeout=600)
            out["demo_clean_exit"] = c.returncode
        a = sh("git -C %s apply %s" % (wt, patch))
        if a.returncode: raise SystemExit("apply failed: " + a.stderr)
        out["diffstat"] = sh("git -C %s diff --stat" % wt).stdout.strip().splitlines()[-1:]
        if os.path.exists(run) and not checks_only:
            c = sh("sh %s %s" % (run, wt), timeout=600)
            out["demo_mutant_exit"] = c.returncode
        b = sh("true") if checks_only else sh("cd %s && cmake -G Ninja -B _b -DCMAKE_BUILD_TYPE=RelWithDebInfo -DREPROC_TEST=ON >/dev/null 2>&1 && cmake --build _b >/dev/null 2>&1 && ctest --test-dir _b -j8 --timeout 300 2>&1 | tail -3" % wt, timeout=1200)
        out["suite"] = b.stdout.strip().splitlines()[-3:]
        out["suite_passes"] = "100% tests passed" in b.stdout
        shutil.rmtree(os.path.join(wt, "_b"), ignore_errors=True)
        env = dict(os.environ); env["VERIF_REPO"] = wt
        scratch = tempfile.mkdtemp(prefix="mutout_")
        env["VERIF_OUT"] = os.path.join(scratch, "out"); env["VERIF_EVIDENCE"] = os.path.join(scratch, "evidence")
        out["checks"] = {}
        for p in props:
            t = time.time()
            c = subprocess.run(["python3", os.path.join(os.path.dirname(os.path.abspath(__file__)), "check.py"), "check", p, "--tier", "quick"], capture_output=True, text=True, env=env, cwd=os.path.dirname(os.path.abspath(__file__)))
            lines = [l for l in c.stdout.splitlines() if l.startswith("VIOLATION") or l.startswith("  what")]
            out["checks"][p] = {"exit": c.returncode, "detected": c.returncode == 1 and any(l.startswith("VIOLATION") for l in lines),
                                "first": lines[:2], "wall_s": round(time.time() - t, 1), "tail": c.stdout.strip().splitlines()[-1:] + c.stderr.strip().splitlines()[-2:]}
        shutil.rmtree(scratch, ignore_errors=True)
    finally:
        sh("git -C /repo worktree remove --force %s" % wt)
        shutil.rmtree(wt, ignore_errors=True)
    print(json.dumps(out, indent=1))

if __name__ == "__main__":
    main()
