#!/usr/bin/env python3
"""gen_numbers.py — rewrite the 'Measured' block of DESIGN.md (section 0.3) from the evidence files of the last quick run."""
import json, glob, re
seen, props = {}, {}
for f in sorted(glob.glob('/verif/evidence/C*.json')):
    e = json.load(open(f))
    props[e['property_id']] = (e['coverage']['states'], e['coverage']['traces_validated_against_impl'], e.get('wall_s'))
    for fam in e['coverage'].get('families', []):
        seen[fam['family']] = fam
rows = ["| family | TLC distinct states | scripts exported | replays (plain + sanitizer + other pools) | divergences |", "|---|---|---|---|---|"]
for k in sorted(seen):
    v = seen[k]
    rows.append("| `%s` | %s | %s | %s | %s |" % (k, v.get('states'), v.get('scripts_exported'), v.get('replays'), v.get('divergences')))
rows += ["", "| property | states (sum over its families) | scripts replayed / records validated | wall time of the quick check (s) |", "|---|---|---|---|"]
for p in sorted(props):
    rows.append("| %s | %d | %d | %s |" % (p, props[p][0], props[p][1], props[p][2]))
block = "<!-- MEASURED-BEGIN -->\nMeasured on the unchanged tree by the last quick run whose evidence is committed (`gen_numbers.py`):\n\n" + "\n".join(rows) + "\n<!-- MEASURED-END -->"
d = open('/verif/DESIGN.md').read()
if '<!-- MEASURED-BEGIN -->' in d:
    d = re.sub(r'<!-- MEASURED-BEGIN -->.*?<!-- MEASURED-END -->', lambda m: block, d, flags=re.S)
else:
    d = d.replace("All 20 properties are claimed at level `model_checking`", block + "\n\nAll 20 properties are claimed at level `model_checking`")
open('/verif/DESIGN.md', 'w').write(d)
print("ok", len(seen), "families")
