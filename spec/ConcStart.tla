----------------------------- MODULE ConcStart -----------------------------
(***************************************************************************)
(* C20 (no cross-talk): operations on different children from different     *)
(* threads, interleaved at system-call granularity.                         *)
(*                                                                         *)
(* Each thread is a sequence of library calls; the library's only           *)
(* interaction with the rest of the process is its system calls, so an      *)
(* interleaving of two threads is a merge of their sequences of             *)
(* kernel-relevant calls (N1 and N2 yield points, measured on the code by   *)
(* a dry run).  TLC explores the whole interleaving lattice; every          *)
(* transition is exported as a schedule (shortest prefix + that step; the   *)
(* rest runs to completion) and replayed against the real code over the     *)
(* simulated kernel with one coroutine per thread.                          *)
(*                                                                         *)
(* Requirement (linearizability to the sequential contract): whatever the   *)
(* interleaving, every call returns what it returns alone, each child is    *)
(* wired exactly as Launch!ChildWiring says for ITS options (it holds no    *)
(* descriptor of the other thread's child), and nobody but the parent holds *)
(* the write end of a child's stdin pipe (so closing it gives that child    *)
(* end-of-file).                                                            *)
(***************************************************************************)
EXTENDS Launch

CONSTANTS N1, N2,    \* yield points of thread 1 / thread 2 (from the dry run)
          Scenario   \* which pair of option records (see Opts)

VARIABLES pc1, pc2, sched
vars == <<pc1, pc2, sched>>
view == <<pc1, pc2>>

R(t, h, f, p) == [t |-> t, h |-> h, f |-> f, p |-> p]
U == R(0, 0, 0, "")
PIPE_ == R(T_PIPE, 0, 0, "")
NoSh == [parent |-> FALSE, discard |-> FALSE, file |-> 0, path |-> ""]
Opt(rd, input) == [rd |-> rd, sh |-> NoSh, input |-> input, fork |-> FALSE, argv |-> TRUE]
Opts(s) == CASE s = 1 -> <<Opt(<<U, U, U>>, -1), Opt(<<U, U, U>>, -1)>>
             [] s = 2 -> <<Opt(<<PIPE_, PIPE_, PIPE_>>, -1), Opt(<<PIPE_, PIPE_, R(T_STDOUT, 0, 0, "")>>, 2)>>
             [] s = 3 -> <<Opt(<<R(T_DISCARD, 0, 0, ""), R(T_PATH, 0, 0, "/d/f"), PIPE_>>, -1), Opt(<<PIPE_, R(T_PARENT, 0, 0, ""), R(T_PARENT, 0, 0, "")>>, -1)>>
             \* the second thread starts a fork-mode child (no exec: the descriptor sweep alone decides what it holds)
             [] s = 4 -> <<Opt(<<PIPE_, PIPE_, PIPE_>>, -1), [Opt(<<U, U, U>>, -1) EXCEPT !.fork = TRUE, !.argv = FALSE]>>
             \* the second thread's program does not exist: its start fails in the child and must clean up after ITSELF only
             [] s = 5 -> <<Opt(<<PIPE_, PIPE_, PIPE_>>, -1), Opt(<<U, U, U>>, -1) @@ [prog |-> "/nonexistent"]>>

K == [std |-> <<TRUE, TRUE, TRUE>>, hasInput |-> FALSE]
RJ(r) == <<r.t, r.h, r.f, r.p>>
\* (each thread also gives its child an extra environment entry of its own: C03 - the child gets the caller's entries plus
\* exactly that one, and the caller's own environment is what it was when both calls have returned)
Prog(o) == IF "prog" \in DOMAIN o THEN o.prog ELSE "/bin/c"
Fails(o) == Prog(o) # "/bin/c"
StartCall(h, o) == [e |-> "call", fn |-> "start", h |-> h, argv |-> <<Prog(o)>>, term |-> 2, noargv |-> IF o.argv THEN 0 ELSE 1,
                    o |-> [rin |-> RJ(o.rd[1]), rout |-> RJ(o.rd[2]), rerr |-> RJ(o.rd[3]), input |-> o.input,
                           envb |-> 0, envx |-> <<"T=" \o ToString(h)>>, fork |-> IF o.fork THEN 1 ELSE 0,
                           stop |-> <<<<3, -1>>, <<0, 0>>, <<0, 0>>>>]]
\* what each child must look like, whatever the interleaving: exactly what it looks like when started alone
Kid(h, o) ==
  LET v == Verdict(o)
      kk == [K EXCEPT !.hasInput = o.input >= 0]
  IN [h |-> h, cw |-> ChildWiring(v.eff, kk), cx |-> ChildExtra(v.eff), cenv |-> IF o.fork THEN <<>> ELSE <<"P=1", "T=" \o ToString(h)>>,
      inw |-> IF v.eff[1].t = T_PIPE THEN (IF o.input >= 0 THEN 0 ELSE 1) ELSE -1]

Script(s) ==
  LET os == Opts(Scenario) IN
  << [e |-> "cfg", cap |-> 8, limit |-> 64, env |-> <<"P=1">>],
     [e |-> "call", fn |-> "new", h |-> 1], [e |-> "ret", r |-> 1],
     [e |-> "call", fn |-> "new", h |-> 2], [e |-> "ret", r |-> 1],
     \* (each thread has its own signal mask, and has exactly that mask again when its call has returned: C12)
     [e |-> "conc", sched |-> s, threads |-> << <<StartCall(1, os[1])>>, <<StartCall(2, os[2])>> >>, masks |-> << <<10>>, <<12, 15>> >>,
      exp |-> [rets |-> << <<1>>, <<IF Fails(os[2]) THEN -2 ELSE 1>> >>, mon |-> <<>>,
               kids |-> <<Kid(1, os[1])>> \o (IF Fails(os[2]) THEN <<>> ELSE <<Kid(2, os[2])>>), tmasks |-> << <<10>>, <<12, 15>> >>, penv |-> <<"P=1">>]],
     [e |-> "call", fn |-> "destroy", h |-> 1], [e |-> "ret", r |-> 0, mon |-> <<>>],
     [e |-> "call", fn |-> "destroy", h |-> 2], [e |-> "ret", r |-> 0, mon |-> <<>>, nfd |-> 3, nalloc |-> 0] >>

Init == pc1 = 0 /\ pc2 = 0 /\ sched = <<>>
Step1 == pc1 < N1 /\ pc1' = pc1 + 1 /\ pc2' = pc2 /\ sched' = Append(sched, 1)
Step2 == pc2 < N2 /\ pc2' = pc2 + 1 /\ pc1' = pc1 /\ sched' = Append(sched, 2)
Next == Step1 \/ Step2
Spec == Init /\ [][Next]_vars
Export == PrintT(<<"BEH", ToJson(Script(sched'))>>)

\* the scheduler model is sane: program order is kept and every schedule is a merge of the two sequences
MergeOK == /\ Len(sched) = pc1 + pc2
           /\ Cardinality({k \in 1..Len(sched) : sched[k] = 1}) = pc1
=============================================================================
