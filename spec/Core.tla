------------------------------- MODULE Core -------------------------------
(***************************************************************************)
(* Contract-level reference model of the reproc C API over an abstract     *)
(* POSIX kernel (DESIGN.md 3.2).                                            *)
(*                                                                         *)
(* One action per public call.  A call runs atomically up to its next      *)
(* blocking point (the poll / blocking read / blocking write / waitpid of  *)
(* the implementation); while it is blocked the environment (the children  *)
(* and the clock) may move, but the call MUST resume at the first instant  *)
(* at which it can (urgency).  Between calls the environment is free.      *)
(*                                                                         *)
(* Every step appends to `hist` what a replay needs: the call with its     *)
(* arguments, the environment steps, and - when the call returns - the     *)
(* predicted observation (return value, virtual time, signals delivered,   *)
(* children reaped, events, byte runs, descriptor and allocation counts).  *)
(* `hist` is hidden from the fingerprint with VIEW in the MC_* models.     *)
(***************************************************************************)
EXTENDS Integers, Sequences, FiniteSets, TLC, TLCExt, Json

CONSTANTS Handles,      \* e.g. {1} or {1, 2}
          MaxTime,      \* bound on the virtual clock
          MaxCalls,     \* bound on the number of API calls in a behaviour
          PipeCap,      \* capacity of every pipe, in bytes
          MaxOut,       \* bound on the number of bytes a child writes per stream
          ExitCodes,    \* exit codes a child may choose when it ends by itself
          TermDelay,    \* a "dies later" child dies this long after its first SIGTERM
          ExportStride, \* quick tier: only every ExportStride-th call-completing transition is exported for replay,
          ExportOffset  \* chosen by the fingerprint of the behaviour (deterministic for a fixed -fp); 1 / 0 = all

VARIABLES life,   \* [Handles -> {"none","ns","run","exited"}]  none = no object (NULL handle)
          stv,    \* [Handles -> Int]   status stored by the reaping wait (-1 = none)
          opt,    \* [Handles -> [dl, stop, nb]]  what start fixed: absolute deadline, stop policy, mode
          pend,   \* [Handles -> [i, o, e, x -> BOOLEAN]]  which parent-side pipe ends are open
          ch,     \* [Handles -> child record]
          buf,    \* [Handles -> [i |-> Nat, o |-> Seq({1,2}), e |-> Seq({1,2})]]  pipe contents
          cnt,    \* [Handles -> counters]  bytes written/delivered per stream (history, bounded)
          now,    \* virtual time
          fr,     \* the call in flight (total record, NoFrame when idle)
          ncalls, \* number of calls made so far
          hist    \* exported behaviour (not part of the fingerprint)

vars == <<life, stv, opt, pend, ch, buf, cnt, now, fr, ncalls, hist>>
view == <<life, stv, opt, pend, ch, buf, cnt, now, fr, ncalls>>

(* ---- constants of the API (Linux values; the library's error constants are negated errnos) ---- *)
INF == -1
DEADLINE == -2
DrainChunk == 4096   \* size of the buffer reproc_drain reads with
EINVAL == -22
EPIPE == -32
ETIMEDOUT == -110
EWOULDBLOCK == -11
ENOENT == -2
EAGAIN == -11
EINTR == -4
EPERM == -1
SIGTERM == 15
SIGKILL == 9
NOOP == 0  WAITA == 1  TERMINATE == 2  KILL == 3
EV_IN == 1  EV_OUT == 2  EV_ERR == 4  EV_EXIT == 8  EV_DEADLINE == 16
S_IN == 0  S_OUT == 1  S_ERR == 2
R_DEFAULT == 0  R_PIPE == 1  R_PARENT == 2  R_DISCARD == 3  R_STDOUT == 4

Min(a, b) == IF a < b THEN a ELSE b
HasBit(m, b) == (m \div b) % 2 = 1

NoChild == [alive |-> "none", code |-> 0, term |-> 2, termAt |-> INF, fd |-> <<"x", "x", "x">>, self |-> FALSE, fk |-> FALSE, xo |-> FALSE, kf |-> FALSE]
NoOpt == [dl |-> INF, stop |-> <<<<NOOP, 0>>, <<NOOP, 0>>, <<NOOP, 0>>>>, nb |-> FALSE]
NoPend == [i |-> FALSE, o |-> FALSE, e |-> FALSE, x |-> FALSE]
NoBuf == [i |-> 0, o |-> <<>>, e |-> <<>>]
NoCnt == [w |-> 0, cw1 |-> 0, cw2 |-> 0, d1 |-> 0, d2 |-> 0, cr |-> 0]
NoFrame == [fn |-> "none", h |-> 0, pc |-> "idle", until |-> INF, i |-> 0, acts |-> <<>>, r |-> 0,
            sigs |-> <<>>, reaped |-> <<>>, t0 |-> 0, a |-> <<>>, x |-> <<>>, then |-> "ret", alt |-> {}, keep |-> 0]

Init ==
  /\ life = [h \in Handles |-> "none"]
  /\ stv = [h \in Handles |-> -1]
  /\ opt = [h \in Handles |-> NoOpt]
  /\ pend = [h \in Handles |-> NoPend]
  /\ ch = [h \in Handles |-> NoChild]
  /\ buf = [h \in Handles |-> NoBuf]
  /\ cnt = [h \in Handles |-> NoCnt]
  /\ now = 0
  /\ fr = NoFrame
  /\ ncalls = 0
  /\ hist = <<[e |-> "cfg", cap |-> PipeCap]>>

(* ---- the bundle of everything a call may change; calls are functions bundle -> bundle ---- *)
Bundle == [life |-> life, stv |-> stv, opt |-> opt, pend |-> pend, ch |-> ch, buf |-> buf, cnt |-> cnt, fr |-> fr]

Commit(s) ==
  /\ life' = s.life /\ stv' = s.stv /\ opt' = s.opt /\ pend' = s.pend
  /\ ch' = s.ch /\ buf' = s.buf /\ cnt' = s.cnt

(* ---- children ---- *)
Zombie(c, code) == [c EXCEPT !.alive = "zombie", !.code = code, !.fd = <<"x", "x", "x">>, !.termAt = INF, !.xo = FALSE]
\* what the library can observe of a child's end: its exit handle hung up (the child ended, or closed it and lives on)
\* (a child that ends gives it up, unless a descendant of it inherited the handle and lives on: ChildExitG)
Hup(c) == ~c.xo

\* the child of handle h receives signal sig (it has not been reaped)
Deliver(s, h, sig) ==
  LET c == s.ch[h]
      c2 == IF c.alive # "run" THEN c
            ELSE IF sig = SIGKILL THEN Zombie(c, 128 + SIGKILL)
            ELSE IF c.term = 0 THEN Zombie(c, 128 + SIGTERM)
            ELSE IF c.term = 1 /\ c.termAt = INF THEN [c EXCEPT !.termAt = now + TermDelay]
            ELSE c
  IN [s EXCEPT !.ch[h] = c2, !.fr.sigs = Append(@, <<h, sig, now>>)]

\* writers of handle h's stdout / stderr pipe, readers of its stdin pipe
Writers(s, h, p) == {f \in 1..3 : s.ch[h].fd[f] = p}
OutWriters(s, h) == Writers(s, h, "po")
ErrWriters(s, h) == Writers(s, h, "pe")
InReaders(s, h) == Writers(s, h, "pi")

(* ---- reaping wait, shared by wait / stop / destroy ---- *)
Reap(s, h) ==
  [s EXCEPT !.life[h] = "exited", !.stv[h] = s.ch[h].code, !.ch[h].alive = "reaped",
            !.pend[h].x = FALSE, !.fr.reaped = Append(@, h), !.fr.r = s.ch[h].code]

\* duration a wait with argument `to` may take on handle h: 0, INF or positive
EffTo(s, h, to) ==
  IF to = DEADLINE
    THEN IF s.opt[h].dl = INF THEN INF ELSE IF s.opt[h].dl <= now THEN 0 ELSE s.opt[h].dl - now
    ELSE to

Block(s, until) == [s EXCEPT !.fr.pc = "blocked", !.fr.until = until]
Done(s) == [s EXCEPT !.fr.pc = "done"]
AbsUntil(e) == IF e = INF THEN INF ELSE now + e

(* ---- stop (and the stop part of destroy) : DESIGN Appendix A.3 ---- *)
Defaulted(acts) ==
  IF \A k \in 1..3 : acts[k][1] = NOOP
    THEN <<<<WAITA, DEADLINE>>, <<TERMINATE, INF>>, <<NOOP, 0>>>>
    ELSE acts

CloseAll(s, h) == [s EXCEPT !.pend[h] = NoPend]

\* what destroy does once the stop policy has run (or when there is nothing to stop)
DestroyTail(s, h) ==
  [CloseAll(s, h) EXCEPT !.life[h] = "none", !.opt[h] = NoOpt, !.stv[h] = -1, !.fr.r = 0,
                         !.buf[h] = [s.buf[h] EXCEPT !.i = s.buf[h].i],
                         !.fr.pc = "done"]

RECURSIVE RunStop(_)
RunStop(s) ==
  LET h == s.fr.h
      i == s.fr.i
      Finish(t) ==
        CASE t.fr.then = "destroy" -> DestroyTail(t, h)
          [] t.fr.then = "rundestroy" -> [DestroyTail(t, h) EXCEPT !.fr.r = t.fr.keep]
          [] t.fr.then = "run" ->
               \* run: the stop result is the result; destroy then applies the policy if the child is still there
               IF t.life[h] = "run"
                 THEN RunStop([t EXCEPT !.fr.keep = t.fr.r, !.fr.then = "rundestroy", !.fr.acts = t.opt[h].stop,
                                        !.fr.i = 1, !.fr.pc = "act"])
                 ELSE [DestroyTail(t, h) EXCEPT !.fr.r = t.fr.r]
          [] OTHER -> Done(t)
  IN
  CASE s.fr.pc = "act" ->
         IF i > 3 THEN Finish(s)
         ELSE LET a == s.fr.acts[i][1] IN
           IF a = NOOP THEN RunStop([s EXCEPT !.fr.i = i + 1])
           ELSE IF a \notin {WAITA, TERMINATE, KILL}
             THEN \* on a reaped child C01 reads "the stored status", C07 "the action's error": both accepted (DESIGN 5.3)
                  Finish([s EXCEPT !.fr.r = EINVAL, !.fr.alt = IF s.life[h] = "exited" THEN {s.stv[h]} ELSE {}])
           ELSE IF s.life[h] = "exited" THEN Finish([s EXCEPT !.fr.r = s.stv[h]])
           ELSE IF a \in {TERMINATE, KILL} /\ s.ch[h].kf THEN Finish([s EXCEPT !.fr.r = EPERM])   \* the error of a failed action ends the sequence
           ELSE LET s1 == IF a = TERMINATE THEN Deliver(s, h, SIGTERM)
                          ELSE IF a = KILL THEN Deliver(s, h, SIGKILL) ELSE s
                IN RunStop([s1 EXCEPT !.fr.pc = "look"])
    [] s.fr.pc = "look" ->
         IF Hup(s.ch[h]) /\ s.ch[h].alive = "zombie" THEN Finish(Reap(s, h))
         ELSE IF Hup(s.ch[h]) THEN [s EXCEPT !.fr.pc = "blocked2", !.fr.until = INF]
         ELSE LET e == EffTo(s, h, s.fr.acts[i][2]) IN
           IF e = 0 THEN RunStop([s EXCEPT !.fr.r = ETIMEDOUT, !.fr.i = i + 1, !.fr.pc = "act"])
           ELSE Block(s, AbsUntil(e))
    [] s.fr.pc = "woke" ->
         IF Hup(s.ch[h]) /\ s.ch[h].alive = "zombie" THEN Finish(Reap(s, h))
         ELSE IF Hup(s.ch[h]) THEN [s EXCEPT !.fr.pc = "blocked2", !.fr.until = INF]
         ELSE RunStop([s EXCEPT !.fr.r = ETIMEDOUT, !.fr.i = i + 1, !.fr.pc = "act"])
    [] s.fr.pc = "intr" -> Finish([s EXCEPT !.fr.r = EINTR])   \* the wait was interrupted: an error other than "timed out" ends the sequence

(* ---- wait ---- *)
\* a child that closed its exit handle but lives on cannot be told from one that ended: the wait then lasts until it really
\* ends (never a status for a running child, C01); pc "blocked2" = waiting for the real end, whatever the timeout was
Block2(s) == [s EXCEPT !.fr.pc = "blocked2", !.fr.until = INF]
RunWait(s) ==
  LET h == s.fr.h IN
  CASE s.fr.pc = "look" ->
         IF Hup(s.ch[h]) /\ s.ch[h].alive = "zombie" THEN Done(Reap(s, h))
         ELSE IF Hup(s.ch[h]) THEN Block2(s)
         ELSE LET e == EffTo(s, h, s.fr.a[1]) IN
           IF e = 0 THEN Done([s EXCEPT !.fr.r = ETIMEDOUT]) ELSE Block(s, AbsUntil(e))
    [] s.fr.pc = "woke" ->
         IF Hup(s.ch[h]) /\ s.ch[h].alive = "zombie" THEN Done(Reap(s, h))
         ELSE IF Hup(s.ch[h]) THEN Block2(s)
         ELSE Done([s EXCEPT !.fr.r = ETIMEDOUT])
    [] s.fr.pc = "intr" -> Done([s EXCEPT !.fr.r = EINTR])     \* nothing changes: the caller may simply wait again

(* ---- streams ---- *)
StreamBuf(s, h, st) == IF st = S_OUT THEN s.buf[h].o ELSE s.buf[h].e
StreamOpen(s, h, st) == IF st = S_OUT THEN s.pend[h].o ELSE s.pend[h].e
StreamWriters(s, h, st) == IF st = S_OUT THEN OutWriters(s, h) ELSE ErrWriters(s, h)

\* Pipe contents are run-length coded: a sequence of <<tag, n>> (n > 0 bytes of origin tag; adjacent runs differ in tag),
\* so that capacities and payloads of any size (64 KiB pipes, megabytes) cost nothing.
RECURSIVE BLen(_)
BLen(b) == IF b = <<>> THEN 0 ELSE Head(b)[2] + BLen(Tail(b))
BAppend(b, tag, n) ==
  IF n = 0 THEN b
  ELSE IF b # <<>> /\ b[Len(b)][1] = tag THEN [b EXCEPT ![Len(b)] = <<tag, b[Len(b)][2] + n>>]
  ELSE Append(b, <<tag, n>>)
\* the first k bytes / what is left after them
RECURSIVE BTake(_, _)
BTake(b, k) ==
  IF k = 0 \/ b = <<>> THEN <<>>
  ELSE IF Head(b)[2] <= k THEN <<Head(b)>> \o BTake(Tail(b), k - Head(b)[2])
  ELSE <<<<Head(b)[1], k>>>>
RECURSIVE BDrop(_, _)
BDrop(b, k) ==
  IF k = 0 \/ b = <<>> THEN b
  ELSE IF Head(b)[2] <= k THEN BDrop(Tail(b), k - Head(b)[2])
  ELSE <<<<Head(b)[1], Head(b)[2] - k>>>> \o Tail(b)
RECURSIVE CountTag(_, _)
CountTag(b, tag) == IF b = <<>> THEN 0 ELSE (IF Head(b)[1] = tag THEN Head(b)[2] ELSE 0) + CountTag(Tail(b), tag)
\* byte runs <<tag, offset, n>> as the reader sees them, given how much of each origin was delivered before
RECURSIVE RunsOf(_, _, _)
RunsOf(taken, d1, d2) ==
  IF taken = <<>> THEN <<>>
  ELSE LET tag == Head(taken)[1]
           m == Head(taken)[2]
       IN <<<<tag, IF tag = 1 THEN d1 ELSE d2, m>>>> \o RunsOf(Tail(taken), IF tag = 1 THEN d1 + m ELSE d1, IF tag = 2 THEN d2 + m ELSE d2)

Deliverk(s, h, st, k) ==
  LET b == StreamBuf(s, h, st)
      taken == BTake(b, k)
      rest == BDrop(b, k)
      s1 == IF st = S_OUT THEN [s EXCEPT !.buf[h].o = rest] ELSE [s EXCEPT !.buf[h].e = rest]
  IN [s1 EXCEPT !.cnt[h].d1 = @ + CountTag(taken, 1), !.cnt[h].d2 = @ + CountTag(taken, 2),
                !.fr.r = k, !.fr.x = RunsOf(taken, s.cnt[h].d1, s.cnt[h].d2)]

ClosePend(s, h, st) ==
  IF st = S_IN THEN [s EXCEPT !.pend[h].i = FALSE]
  ELSE IF st = S_OUT THEN [s EXCEPT !.pend[h].o = FALSE]
  ELSE [s EXCEPT !.pend[h].e = FALSE]

RunRead(s) ==
  LET h == s.fr.h
      st == s.fr.a[1]
      n == s.fr.a[2]
      b == StreamBuf(s, h, st)
  IN
  IF s.fr.pc = "intr" THEN Done([s EXCEPT !.fr.r = EINTR])     \* the stream stays open, nothing is lost
  ELSE IF ~StreamOpen(s, h, st) THEN Done([s EXCEPT !.fr.r = EPIPE])
  ELSE IF b # <<>> /\ n = 0 THEN Done([s EXCEPT !.fr.r = 0])   \* nothing asked for: nothing consumed, nothing closed
  ELSE IF b # <<>> THEN Done(Deliverk(s, h, st, Min(n, BLen(b))))
  ELSE IF StreamWriters(s, h, st) = {} THEN Done([ClosePend(s, h, st) EXCEPT !.fr.r = EPIPE])
  ELSE IF s.opt[h].nb THEN Done([s EXCEPT !.fr.r = EWOULDBLOCK])
  ELSE Block(s, INF)

RunWrite(s) ==
  LET h == s.fr.h
      n == s.fr.a[1]      \* bytes still to write
      done == s.fr.a[2]   \* bytes written so far in this call
      room == PipeCap - s.buf[h].i
      k == Min(n, room)
  IN
  IF s.fr.pc = "intr" THEN Done([s EXCEPT !.fr.r = IF done > 0 THEN done ELSE EINTR])
  ELSE IF ~s.pend[h].i THEN Done([s EXCEPT !.fr.r = EPIPE])
  ELSE IF InReaders(s, h) = {} THEN
         IF done > 0 THEN Done([s EXCEPT !.fr.r = done])
         ELSE Done([ClosePend(s, h, S_IN) EXCEPT !.fr.r = EPIPE])
  ELSE IF n = 0 THEN Done([s EXCEPT !.fr.r = done])
  ELSE IF k > 0 THEN
         LET s1 == [s EXCEPT !.buf[h].i = @ + k, !.cnt[h].w = @ + k, !.fr.a = <<n - k, done + k>>] IN
         IF k = n \/ s.opt[h].nb THEN Done([s1 EXCEPT !.fr.r = done + k]) ELSE Block(s1, INF)
  ELSE IF s.opt[h].nb THEN Done([s EXCEPT !.fr.r = IF done > 0 THEN done ELSE EWOULDBLOCK])
  ELSE Block(s, INF)

(* ---- poll : DESIGN Appendix A.2 ---- *)
Started(s, h) == h # 0 /\ s.life[h] \in {"run", "exited"}
Expired(s, h) == h # 0 /\ s.life[h] # "none" /\ s.opt[h].dl # INF /\ now >= s.opt[h].dl

\* events that are true now for a source <<h, mask>>
EventsOf(s, src) ==
  LET h == src[1]
      m == src[2]
  IN IF h = 0 \/ s.life[h] = "none" THEN 0
     ELSE (IF HasBit(m, EV_IN) /\ s.pend[h].i /\ (s.buf[h].i < PipeCap \/ InReaders(s, h) = {}) THEN EV_IN ELSE 0)
        + (IF HasBit(m, EV_OUT) /\ s.pend[h].o /\ (s.buf[h].o # <<>> \/ OutWriters(s, h) = {}) THEN EV_OUT ELSE 0)
        + (IF HasBit(m, EV_ERR) /\ s.pend[h].e /\ (s.buf[h].e # <<>> \/ ErrWriters(s, h) = {}) THEN EV_ERR ELSE 0)
        + (IF HasBit(m, EV_EXIT) /\ s.pend[h].x /\ Hup(s.ch[h]) THEN EV_EXIT ELSE 0)

Pollable(s, src) ==
  LET h == src[1]
      m == src[2]
  IN h # 0 /\ s.life[h] # "none" /\
     \/ HasBit(m, EV_IN) /\ s.pend[h].i
     \/ HasBit(m, EV_OUT) /\ s.pend[h].o
     \/ HasBit(m, EV_ERR) /\ s.pend[h].e
     \/ HasBit(m, EV_EXIT) /\ s.pend[h].x

SrcHandles(srcs) == {srcs[k][1] : k \in 1..Len(srcs)} \ {0}
Deadlines(s, srcs) == {s.opt[h].dl : h \in {g \in SrcHandles(srcs) : s.life[g] # "none" /\ s.opt[g].dl # INF}}
MinOf(S) == CHOOSE m \in S : \A k \in S : m <= k

\* the alternatives <<r, ev1, ..., evn>> of a deadline report: exactly one source whose handle satisfies P
DeadlineAlts(srcs, P(_)) ==
  {<<1>> \o [k \in 1..Len(srcs) |-> IF k = j THEN EV_DEADLINE ELSE 0] : j \in {k \in 1..Len(srcs) : P(srcs[k][1])}}

ZeroRev(srcs) == <<0>> \o [k \in 1..Len(srcs) |-> 0]
EventRev(s, srcs) ==
  LET ev == [k \in 1..Len(srcs) |-> EventsOf(s, srcs[k])]
  IN <<Cardinality({k \in 1..Len(srcs) : ev[k] # 0})>> \o ev

\* result of a poll is kept in fr.x as a set of alternatives (each <<r, ev...>>); fr.r = 0 means "see fr.x"
RunPoll(s) ==
  LET srcs == s.fr.a[1]
      to == s.fr.a[2]
      dls == Deadlines(s, srcs)
      anyReady == \E k \in 1..Len(srcs) : EventsOf(s, srcs[k]) # 0
  IN
  CASE s.fr.pc = "look" ->
         IF \E k \in 1..Len(srcs) : Expired(s, srcs[k][1])
           THEN Done([s EXCEPT !.fr.x = DeadlineAlts(srcs, LAMBDA g : Expired(s, g))])
         ELSE IF ~\E k \in 1..Len(srcs) : Pollable(s, srcs[k])
           THEN Done([s EXCEPT !.fr.r = EPIPE, !.fr.x = {}])
         ELSE IF anyReady THEN Done([s EXCEPT !.fr.x = {EventRev(s, srcs)}])
         ELSE IF to = 0 THEN Done([s EXCEPT !.fr.x = {ZeroRev(srcs)}])
         ELSE LET tto == IF to = INF THEN INF ELSE now + to
                  tdl == IF dls = {} THEN INF ELSE MinOf(dls)
                  until == IF tto = INF THEN tdl ELSE IF tdl = INF THEN tto ELSE Min(tto, tdl)
              IN Block([s EXCEPT !.fr.acts = <<tto, tdl>>], until)
    [] s.fr.pc = "intr" -> Done([s EXCEPT !.fr.r = EINTR, !.fr.x = {}])
    [] s.fr.pc = "woke" ->
         IF anyReady THEN Done([s EXCEPT !.fr.x = {EventRev(s, srcs)}])
         ELSE LET tto == s.fr.acts[1]
                  tdl == s.fr.acts[2]
                  byTo == tto # INF /\ (tdl = INF \/ tto <= tdl)
                  byDl == tdl # INF /\ (tto = INF \/ tdl <= tto)
              IN Done([s EXCEPT !.fr.x =
                   (IF byTo THEN {ZeroRev(srcs)} ELSE {}) \cup
                   (IF byDl THEN DeadlineAlts(srcs, LAMBDA g : g # 0 /\ s.life[g] # "none" /\ s.opt[g].dl = tdl) ELSE {})])

(* ---- drain (and the drain part of run) : C16 ---- *)
\* fr.a = <<sink1, sink2>> with sinki = <<fail_at, fail_val>> (fail_at = 0: never fails);
\* fr.x = [c1, c2: calls made per sink; b1, b2: data bytes passed per sink; z1, z2: closing (size 0) calls per sink]
\* a sink is <<fail_at, fail_val>> (recording sink) or <<fail_at, ENOMEM, "str", L0>>: the library's string sink on a string of
\* L0 characters whose fail_at-th growth step cannot allocate
ENOMEM == -12
IsStr(sk) == Len(sk) = 4
StrL0(sk) == IF sk[4] < 0 THEN 0 ELSE sk[4]
\* <<0, 0, "nest", g, 0>>: a recording sink that, when it gets its first data, first drains handle g (whose child has ended, so
\* that this cannot block) on the same thread with sinks of its own, and only then looks at the buffer it was given:
\* the library is re-entered from a sink; the outer call must be unaffected (its chunk intact, its bookkeeping its own)
IsNest(sk) == Len(sk) = 5
CanDrainNow(s, g) == g # 0 /\ s.life[g] \in {"run", "exited"} /\ s.ch[g].alive # "run" /\ s.ch[g].fd = <<"x", "x", "x">>
IsDiscard(sk) == Len(sk) = 3      \* <<0, 0, "discard">> / <<0, 0, "null">>: the library's own discarding sinks (nothing to observe but the result)
SinkArg(sk) == IF IsStr(sk) THEN <<"str", sk[4], sk[1]>> ELSE IF IsDiscard(sk) THEN <<sk[3]>> ELSE IF IsNest(sk) THEN <<"nest", sk[4]>> ELSE <<"rec", sk[1], sk[2]>>
SinkArgs(sinks) == <<SinkArg(sinks[1]), SinkArg(sinks[2])>>
SinkRet(s, k) ==   \* the value sink k returns for the call it is about to receive
  LET calls == IF k = 1 THEN s.fr.x.c1 ELSE s.fr.x.c2
      sp == s.fr.a[k]
  IN IF sp[1] # 0 /\ calls + 1 = sp[1] THEN sp[2] ELSE 0
SinkCall(s, k, nbytes, closing) ==   \* (s1, s2: bytes the sink accepted, i.e. passed in calls that returned 0)
  LET okb == IF SinkRet(s, k) = 0 THEN nbytes ELSE 0 IN
  IF k = 1 THEN [s EXCEPT !.fr.x.c1 = @ + 1, !.fr.x.b1 = @ + nbytes, !.fr.x.z1 = @ + closing, !.fr.x.s1 = @ + okb]
  ELSE [s EXCEPT !.fr.x.c2 = @ + 1, !.fr.x.b2 = @ + nbytes, !.fr.x.z2 = @ + closing, !.fr.x.s2 = @ + okb]

NoAcc == [c1 |-> 0, c2 |-> 0, b1 |-> 0, b2 |-> 0, z1 |-> 0, z2 |-> 0, s1 |-> 0, s2 |-> 0, nest |-> <<>>]
RECURSIVE RunDrain(_)
RunDrain(s) ==
  LET h == s.fr.h
      EndDrain(t, r) ==
        IF t.fr.then = "ret" THEN Done([t EXCEPT !.fr.r = r])
        ELSE IF r < 0 THEN  \* run: an error from drain is the result; destroy applies the stop policy
               RunStop([t EXCEPT !.fr.keep = r, !.fr.fn = "run", !.fr.then = "rundestroy", !.fr.acts = t.opt[h].stop,
                                 !.fr.i = 1, !.fr.pc = "act"])
        ELSE RunStop([t EXCEPT !.fr.fn = "run", !.fr.then = "run", !.fr.acts = Defaulted(t.fr.acts), !.fr.i = 1, !.fr.pc = "act"])
      \* process one ready stream st through sink k
      Step(st, k) ==
        LET b == StreamBuf(s, h, st) IN
        IF b # <<>>
          THEN LET rv == SinkRet(s, k)
                   nb_ == Min(BLen(b), DrainChunk)     \* drain reads with a buffer of DrainChunk bytes
                   s0 == SinkCall([Deliverk(s, h, st, nb_) EXCEPT !.fr.r = 0, !.fr.x = s.fr.x], k, nb_, 0)
                   sp == s.fr.a[k]
                   \* the sink re-enters the library: a complete drain of handle sp[4], then the outer call goes on
                   inner == RunDrain([s0 EXCEPT !.fr = [NoFrame EXCEPT !.fn = "drain", !.h = sp[4], !.pc = "init", !.a = <<<<0, 0>>, <<0, 0>>>>,
                                                                          !.t0 = now, !.x = NoAcc]])
                   s1 == IF IsNest(sp) /\ s.fr.x.nest = <<>> /\ CanDrainNow(s0, sp[4])
                           THEN [inner EXCEPT !.fr = [s0.fr EXCEPT !.x.nest = <<inner.fr.r, inner.fr.x.b1, inner.fr.x.b2>>]]
                           ELSE s0
               IN IF rv # 0 THEN EndDrain(s1, rv) ELSE RunDrain(s1)
          ELSE LET rv == SinkRet(s, k)
                   s1 == SinkCall(ClosePend(s, h, st), k, 0, 1)
               IN IF rv # 0 THEN EndDrain(s1, rv) ELSE RunDrain(s1)
      outReady == s.pend[h].o /\ (s.buf[h].o # <<>> \/ OutWriters(s, h) = {})
      errReady == s.pend[h].e /\ (s.buf[h].e # <<>> \/ ErrWriters(s, h) = {})
  IN
  CASE s.fr.pc = "init" ->
         LET r1 == SinkRet(s, 1)
             s1 == SinkCall(s, 1, 0, 0)
         IN IF r1 # 0 THEN EndDrain(s1, r1)
            ELSE LET r2 == SinkRet(s1, 2)
                     s2 == SinkCall(s1, 2, 0, 0)
                 IN IF r2 # 0 THEN EndDrain(s2, r2) ELSE RunDrain([s2 EXCEPT !.fr.pc = "look"])
    [] s.fr.pc = "intr" -> EndDrain(s, EINTR)
    [] s.fr.pc \in {"look", "woke"} ->
         IF Expired(s, h) THEN EndDrain(s, ETIMEDOUT)
         ELSE IF ~s.pend[h].o /\ ~s.pend[h].e THEN EndDrain(s, 0)
         ELSE IF outReady THEN Step(S_OUT, 1)
         ELSE IF errReady THEN Step(S_ERR, 2)
         ELSE Block(s, s.opt[h].dl)

(* ---- dispatch ---- *)
Run(s) ==
  CASE s.fr.fn \in {"stop", "destroy"} -> RunStop(s)
    [] s.fr.fn = "drain" -> RunDrain(s)
    [] s.fr.fn = "run" -> IF s.fr.then = "drain" THEN RunDrain(s) ELSE RunStop(s)
    [] s.fr.fn = "wait" -> RunWait(s)
    [] s.fr.fn = "read" -> RunRead(s)
    [] s.fr.fn = "write" -> RunWrite(s)
    [] s.fr.fn = "poll" -> RunPoll(s)

(* condition under which a blocked call must resume *)
Wake2 == fr.pc = "blocked2" /\ ch[fr.h].alive # "run"
Wake1 ==
  /\ fr.pc = "blocked"
  /\ \/ fr.until # INF /\ now >= fr.until
     \/ fr.fn \in {"stop", "destroy", "wait"} /\ Hup(ch[fr.h])
     \/ fr.fn = "run" /\ fr.then # "drain" /\ Hup(ch[fr.h])
     \/ fr.fn \in {"drain", "run"} /\ fr.then \in {"ret", "drain"} /\
          LET b == Bundle IN
          \/ pend[fr.h].o /\ (buf[fr.h].o # <<>> \/ OutWriters(b, fr.h) = {})
          \/ pend[fr.h].e /\ (buf[fr.h].e # <<>> \/ ErrWriters(b, fr.h) = {})
     \/ fr.fn = "read" /\ (StreamBuf(Bundle, fr.h, fr.a[1]) # <<>> \/ StreamWriters(Bundle, fr.h, fr.a[1]) = {})
     \/ fr.fn = "write" /\ (buf[fr.h].i < PipeCap \/ InReaders(Bundle, fr.h) = {})
     \/ fr.fn = "poll" /\ \E k \in 1..Len(fr.a[1]) : EventsOf(Bundle, fr.a[1][k]) # 0
Wake == Wake1 \/ Wake2

(* ---- predicted observation of a completed call ---- *)
NFd(s) == 3 + Cardinality({<<h, e>> \in Handles \X {"i", "o", "e", "x"} :
                              (e = "i" /\ s.pend[h].i) \/ (e = "o" /\ s.pend[h].o) \/ (e = "e" /\ s.pend[h].e) \/ (e = "x" /\ s.pend[h].x)})
NAlloc(s) == Cardinality({h \in Handles : s.life[h] # "none"})
ChildStates(s) ==
  LET hs == {h \in Handles : s.ch[h].alive # "none"}
      code(h) == IF s.ch[h].alive = "run" THEN 0 ELSE IF s.ch[h].alive = "zombie" THEN 1 ELSE 2
      RECURSIVE Lst(_)
      Lst(S) == IF S = {} THEN <<>> ELSE LET m == MinOf(S) IN <<<<m, code(m)>>>> \o Lst(S \ {m})
  IN Lst(hs)

SetToSeq(S) == CHOOSE q \in [1..Cardinality(S) -> S] : \A a, b \in 1..Cardinality(S) : a # b => q[a] # q[b]

\* normalised sink-call summary (DESIGN 6 C16): per sink <<calls, data bytes, closing calls>>;
\* when a sink failed only the failing sink's record is compared (the order across sinks is not part of the contract)
DrainSummary(f) ==
  LET failed(k) == f.a[k][1] # 0 /\ (IF k = 1 THEN f.x.c1 ELSE f.x.c2) >= f.a[k][1]
      rec(k) == IF k = 1 THEN <<f.x.c1, f.x.b1, f.x.z1>> ELSE <<f.x.c2, f.x.b2, f.x.z2>>
  IN IF failed(1) THEN <<rec(1), <<-1, -1, -1>>>>
     ELSE IF failed(2) THEN <<<<-1, -1, -1>>, rec(2)>>
     ELSE <<rec(1), rec(2)>>

\* whether the descriptor / allocation count is predicted for a failed start too (MC_Destroy overrides this with FALSE:
\* C15 speaks about what is left after destroy, so there a leak of a failed start must show at destroy's return)
StrictFailedStart == TRUE

RetRec(s) ==
  LET f == s.fr
      base == [e |-> "ret", t |-> now, sig |-> f.sigs, reap |-> f.reaped, mon |-> <<>>,
               nfd |-> NFd(s), nalloc |-> NAlloc(s), st |-> ChildStates(s)]
  IN CASE f.fn = "poll" /\ f.r = 0 -> base @@ [rev |-> [any |-> SetToSeq(f.x)]]
       [] f.fn = "read" /\ f.r > 0 -> base @@ [r |-> f.r, runs |-> f.x, bad |-> 0]
       [] f.fn \in {"drain", "run", "run0"} /\ DOMAIN f.x # {} /\ (IsDiscard(f.a[1]) \/ IsDiscard(f.a[2])) -> base @@ [r |-> f.r]
       [] f.fn \in {"drain", "run"} /\ DOMAIN f.x # {} ->
            base @@ [r |-> f.r, dsum |-> DrainSummary(f), bad |-> 0]
                 @@ (IF f.x.nest # <<>> THEN [nest |-> f.x.nest] ELSE <<>>)
                 \* (initial length -1: the caller's string pointer is NULL; after the call it is a string all the same, "" if nothing came)
                 @@ (IF IsStr(f.a[1]) THEN [str1 |-> <<StrL0(f.a[1]) + f.x.s1, StrL0(f.a[1]), 1>>] ELSE <<>>)
                 @@ (IF IsStr(f.a[2]) THEN [str2 |-> <<StrL0(f.a[2]) + f.x.s2, StrL0(f.a[2]), 1>>] ELSE <<>>)
       [] f.fn = "start" /\ f.r < 0 /\ ~StrictFailedStart -> [e |-> "ret", t |-> now, mon |-> <<>>, r |-> f.r]
       [] f.fn = "start" /\ f.r = 1 /\ f.x = <<"fork">> ->
            \* in the forked child: start returned 0; pid, wait and another start are rejected there (only destroy is allowed);
            \* it holds one descriptor above 2 (the exit handle), blocks no signal, and destroy there closes nothing of the child's own
            base @@ [r |-> 1, fchild |-> <<0, EINVAL, EINVAL, 1, 0, EINVAL, 0>>]
       [] f.alt # {} -> base @@ [r |-> [any |-> SetToSeq({f.r} \cup f.alt)], ralt |-> 1]
       [] OTHER -> base @@ [r |-> f.r]

NoArgs == [e |-> "call"]
CallRec(fn, h, args) == [e |-> "call", fn |-> fn, h |-> h] @@ args

(* finish a call step: either it completed (append ret) or it blocked *)
Finish(s, newhist) ==
  /\ Commit(s)
  /\ IF s.fr.pc = "done"
       THEN /\ fr' = NoFrame
            /\ hist' = Append(newhist, RetRec(s))
       ELSE /\ fr' = s.fr
            /\ hist' = newhist
  /\ UNCHANGED now

Idle == fr.fn = "none" /\ ncalls < MaxCalls

Frame(fn, h, pc, a) == [NoFrame EXCEPT !.fn = fn, !.h = h, !.pc = pc, !.a = a, !.t0 = now]

\* a call that completes at once with result r and no effect
Immediate(fn, h, args, r) ==
  /\ Idle
  /\ ncalls' = ncalls + 1
  /\ Finish([Bundle EXCEPT !.fr = [Frame(fn, h, "done", <<>>) EXCEPT !.r = r]], Append(hist, CallRec(fn, h, args)))

Begin(fn, h, args, f) ==
  /\ Idle
  /\ ncalls' = ncalls + 1
  /\ Finish(Run([Bundle EXCEPT !.fr = f]), Append(hist, CallRec(fn, h, args)))

(* ======================= API actions ======================= *)
\* h = 0 stands for a NULL handle in every call

New(h) ==
  /\ h # 0 /\ life[h] = "none" /\ ch[h].alive = "none"   \* a handle index is used for one object only
  /\ Idle /\ ncalls' = ncalls + 1
  /\ Finish([Bundle EXCEPT !.life[h] = "ns", !.fr = [Frame("new", h, "done", <<>>) EXCEPT !.r = 1]],
            Append(hist, CallRec("new", h, NoArgs)))

\* o: [dl, stop, nb, rin, rout, rerr, input, term, self, prog]  (see MC modules for the sets)
EffRedir(o) == [i |-> IF o.rin = R_DEFAULT THEN R_PIPE ELSE o.rin,
                o |-> IF o.rout = R_DEFAULT THEN R_PIPE ELSE o.rout,
                e |-> IF o.rerr = R_DEFAULT THEN R_PARENT ELSE o.rerr]

\* fork mode (POSIX): start without argv; the forked child returns 0 from start, the parent gets an ordinary running child
IsFork(o) == "fork" \in DOMAIN o /\ o.fork
\* a child the caller may not signal (it changed its user id, say): kill() on it fails with "operation not permitted"; the
\* signalling call - and a stop sequence at that action - returns that error, nothing is sent, nothing else changes
KillFails(o) == "kf" \in DOMAIN o /\ o.kf
StartArgs(o) == (IF KillFails(o) THEN [kf |-> 1] ELSE <<>>) @@
                [argv |-> <<o.prog>>, term |-> o.term, noargv |-> IF IsFork(o) THEN 1 ELSE 0,
                 o |-> [dl |-> o.dl, stop |-> o.stop, nb |-> IF o.nb THEN 1 ELSE 0, rin |-> o.rin, rout |-> o.rout,
                        rerr |-> o.rerr, input |-> o.input, fork |-> IF IsFork(o) THEN 1 ELSE 0]]

\* error a start with options o fails with on a startable handle (0 = it succeeds)
StartError(o) ==
  LET er == EffRedir(o) IN
  IF o.input >= 0 /\ er.i # R_PIPE THEN EINVAL
  ELSE IF o.prog # "/bin/c" THEN ENOENT
  ELSE IF o.input > PipeCap THEN EAGAIN
  ELSE 0

\* what a successful start does to handle h
StartEffect(s, h, o) ==
  LET er == EffRedir(o)
      hasIn == o.input >= 0
      c == [alive |-> "run", code |-> 0, term |-> o.term, termAt |-> INF, self |-> o.self, fk |-> IsFork(o), xo |-> TRUE, kf |-> KillFails(o),
            fd |-> << IF er.i = R_PIPE THEN "pi" ELSE "ot",
                      IF er.o = R_PIPE THEN "po" ELSE "ot",
                      IF er.e = R_PIPE THEN "pe" ELSE IF er.e = R_STDOUT /\ er.o = R_PIPE THEN "po" ELSE "ot" >>]
  IN [s EXCEPT
        !.life[h] = "run",
        !.opt[h] = [dl |-> IF o.dl = 0 THEN INF ELSE now + o.dl, stop |-> Defaulted(o.stop), nb |-> o.nb],
        !.pend[h] = [i |-> er.i = R_PIPE /\ ~hasIn, o |-> er.o = R_PIPE, e |-> er.e = R_PIPE, x |-> TRUE],
        !.ch[h] = c,
        !.buf[h] = [i |-> IF hasIn THEN o.input ELSE 0, o |-> <<>>, e |-> <<>>],
        !.cnt[h] = [NoCnt EXCEPT !.w = IF hasIn THEN o.input ELSE 0]]

Start(h, o) ==
  IF h = 0 \/ life[h] # "ns" THEN Immediate("start", h, StartArgs(o), EINVAL)
  ELSE IF StartError(o) # 0 THEN Immediate("start", h, StartArgs(o), StartError(o))
  ELSE
    /\ Idle /\ ncalls' = ncalls + 1
    /\ Finish(StartEffect([Bundle EXCEPT !.fr = [Frame("start", h, "done", <<>>) EXCEPT !.r = 1, !.x = IF IsFork(o) THEN <<"fork">> ELSE <<>>]], h, o),
              Append(hist, CallRec("start", h, StartArgs(o))))

Pid(h) ==
  Immediate("pid", h, NoArgs, IF h # 0 /\ life[h] \in {"run", "exited"} THEN 1 ELSE EINVAL)

Wait(h, to) ==
  IF h = 0 \/ life[h] \notin {"run", "exited"} THEN Immediate("wait", h, [to |-> to], EINVAL)
  ELSE IF life[h] = "exited" THEN Immediate("wait", h, [to |-> to], stv[h])
  ELSE Begin("wait", h, [to |-> to], Frame("wait", h, "look", <<to>>))

Signal(fn, h, sig) ==
  IF h = 0 \/ life[h] \notin {"run", "exited"} THEN Immediate(fn, h, NoArgs, EINVAL)
  ELSE IF life[h] = "exited" THEN Immediate(fn, h, NoArgs, 0)
  ELSE IF ch[h].kf THEN Immediate(fn, h, NoArgs, EPERM)
  ELSE /\ Idle /\ ncalls' = ncalls + 1
       /\ Finish(Done(Deliver([Bundle EXCEPT !.fr = Frame(fn, h, "done", <<>>)], h, sig)),
                 Append(hist, CallRec(fn, h, NoArgs)))
Terminate(h) == Signal("terminate", h, SIGTERM)
Kill(h) == Signal("kill", h, SIGKILL)

Stop(h, acts) ==
  IF h = 0 \/ life[h] \notin {"run", "exited"} THEN Immediate("stop", h, [a |-> acts], EINVAL)
  ELSE Begin("stop", h, [a |-> acts],
             [Frame("stop", h, "act", <<>>) EXCEPT !.acts = Defaulted(acts), !.i = 1, !.r = 0])

Destroy(h) ==
  IF h = 0 \/ life[h] = "none" THEN Immediate("destroy", 0, NoArgs, 0)
  ELSE IF life[h] = "run"
    THEN Begin("destroy", h, NoArgs,
               [Frame("destroy", h, "act", <<>>) EXCEPT !.acts = opt[h].stop, !.i = 1, !.then = "destroy"])
    ELSE /\ Idle /\ ncalls' = ncalls + 1
         /\ Finish(DestroyTail([Bundle EXCEPT !.fr = Frame("destroy", h, "done", <<>>)], h),
                   Append(hist, CallRec("destroy", h, NoArgs)))

Close(h, st) ==
  IF h = 0 \/ life[h] = "none" \/ st \notin {S_IN, S_OUT, S_ERR} THEN Immediate("close", h, [s |-> st], EINVAL)
  ELSE /\ Idle /\ ncalls' = ncalls + 1
       /\ Finish([ClosePend(Bundle, h, st) EXCEPT !.fr = [Frame("close", h, "done", <<>>) EXCEPT !.r = 0]],
                 Append(hist, CallRec("close", h, [s |-> st])))

\* nullbuf: 1 = pass a NULL buffer
Read(h, st, n, nullbuf) ==
  LET args == [s |-> st, n |-> n, nullbuf |-> nullbuf] IN
  IF h = 0 \/ life[h] = "none" \/ st \notin {S_OUT, S_ERR} \/ nullbuf = 1 THEN Immediate("read", h, args, EINVAL)
  ELSE Begin("read", h, args, Frame("read", h, "look", <<st, n>>))

Write(h, n, nullbuf) ==
  LET args == [n |-> n, nullbuf |-> nullbuf] IN
  IF h = 0 \/ life[h] = "none" THEN Immediate("write", h, args, EINVAL)
  ELSE IF nullbuf = 1 THEN Immediate("write", h, args, IF n = 0 THEN 0 ELSE EINVAL)
  ELSE Begin("write", h, args, Frame("write", h, "look", <<n, 0>>))

Poll(srcs, to) ==
  LET args == [src |-> srcs, to |-> to] IN
  IF Len(srcs) = 0 THEN Immediate("poll", 0, args, EINVAL)
  ELSE Begin("poll", 0, args, Frame("poll", 0, "look", <<srcs, to>>))



\* sinks = <<<<fail_at, fail_val>>, <<fail_at, fail_val>>>>; nofn = 1: pass a sink without a function
Drain(h, sinks, nofn) ==
  LET args == [sinks |-> IF nofn = 1 THEN <<<<"nofn">>, <<"rec", 0, 0>>>> ELSE SinkArgs(sinks)] IN
  IF h = 0 \/ life[h] = "none" \/ nofn = 1 THEN Immediate("drain", h, args, EINVAL)
  ELSE Begin("drain", h, args, [Frame("drain", h, "init", sinks) EXCEPT !.x = NoAcc])

\* reproc_run_ex on a fresh internal handle (index h, never used before): new + start + drain + stop + destroy
RunCall(h, o, sinks) ==
  LET args == [StartArgs(o) EXCEPT !.o = @ @@ [x |-> 0]] @@ [sinks |-> SinkArgs(sinks)] IN
  /\ h # 0 /\ life[h] = "none" /\ ch[h].alive = "none"
  /\ IF StartError(o) # 0 THEN Immediate("run", h, args, StartError(o))
     ELSE /\ Idle /\ ncalls' = ncalls + 1
          /\ Finish(Run(StartEffect([Bundle EXCEPT !.fr = [Frame("run", h, "init", sinks) EXCEPT
                                                              !.x = NoAcc, !.then = "drain", !.acts = o.stop]], h, o)),
                    Append(hist, CallRec("run", h, args)))

\* reproc_run(argv, options): everything goes to the parent's streams unless discard / file / path is asked for; output is not
\* collected; otherwise as reproc_run_ex.  (The model's options have no file/path shorthand, so: parent unless o.rout = R_DISCARD.)
RunSimple(h, o) ==
  LET o2 == IF o.rout = R_DISCARD THEN [o EXCEPT !.rin = R_DISCARD, !.rerr = R_DISCARD] ELSE [o EXCEPT !.rin = R_PARENT, !.rout = R_PARENT, !.rerr = R_PARENT]
      sinks == <<<<0, 0, "null">>, <<0, 0, "null">>>>
      args == [StartArgs(o) EXCEPT !.o = [@ EXCEPT !.rin = 0, !.rout = 0, !.rerr = 0] @@ [discard |-> IF o.rout = R_DISCARD THEN 1 ELSE 0]]
  IN
  /\ h # 0 /\ life[h] = "none" /\ ch[h].alive = "none"
  /\ IF StartError(o2) # 0 THEN Immediate("run0", h, args, StartError(o2))
     ELSE /\ Idle /\ ncalls' = ncalls + 1
          /\ Finish(Run(StartEffect([Bundle EXCEPT !.fr = [Frame("run", h, "init", sinks) EXCEPT
                                                              !.x = NoAcc, !.then = "drain", !.acts = o.stop]], h, o2)),
                    Append(hist, CallRec("run0", h, args)))

Resume ==
  /\ Wake
  /\ Finish(Run([Bundle EXCEPT !.fr.pc = "woke"]), hist)
  /\ UNCHANGED ncalls

\* A signal handler of the caller runs while a call is blocked: the blocking system call fails with EINTR.  The library
\* does not retry; the call returns that error at once (after a partial write: the partial count) and nothing else changes.
Interrupt ==
  /\ fr.pc \in {"blocked", "blocked2"} /\ ~Wake
  /\ Finish(Run([Bundle EXCEPT !.fr.pc = "intr"]), Append(hist, [e |-> "env", k |-> "eintr"]))
  /\ UNCHANGED ncalls

(* ======================= environment ======================= *)
EnvOK == fr.fn = "none" \/ (fr.pc \in {"blocked", "blocked2"} /\ ~Wake)
EnvRec(k, h, args) == [e |-> "env", k |-> k, h |-> h] @@ args
DeathDue == \E h \in Handles : ch[h].alive = "run" /\ ch[h].termAt # INF /\ ch[h].termAt <= now

Tick ==
  /\ EnvOK /\ ~DeathDue /\ now < MaxTime
  /\ \E h \in Handles : life[h] \in {"run", "exited"}   \* time before the first start is irrelevant
  /\ now' = now + 1
  /\ hist' = Append(hist, [e |-> "env", k |-> "adv", d |-> 1])
  /\ UNCHANGED <<life, stv, opt, pend, ch, buf, cnt, fr, ncalls>>

ChildExit(h, code) ==
  /\ EnvOK /\ ch[h].alive = "run" /\ ch[h].self
  /\ ch' = [ch EXCEPT ![h] = Zombie(@, code)]
  /\ hist' = Append(hist, EnvRec("exit", h, [code |-> code]))
  /\ UNCHANGED <<life, stv, opt, pend, buf, cnt, now, fr, ncalls>>

\* The child ends, but a process it started earlier (a daemon, a background job) inherited its descriptors - the stream pipes
\* and the exit handle - and lives on.  The library learns of a child's end only from the exit handle, so until that
\* descendant is gone too (GrandGone) a wait times out although the child is a zombie, and the streams see no end.
ChildExitG(h, code) ==
  /\ EnvOK /\ ch[h].alive = "run" /\ ch[h].self /\ (ch[h].xo \/ ch[h].fd # <<"x", "x", "x">>)   \* (something is left to inherit)
  /\ ch' = [ch EXCEPT ![h].alive = "zombie", ![h].code = code, ![h].termAt = INF]
  /\ hist' = Append(hist, EnvRec("exitg", h, [code |-> code]))
  /\ UNCHANGED <<life, stv, opt, pend, buf, cnt, now, fr, ncalls>>

GrandGone(h) ==
  /\ EnvOK /\ ch[h].alive \in {"zombie", "reaped"} /\ (ch[h].xo \/ ch[h].fd # <<"x", "x", "x">>)
  /\ ch' = [ch EXCEPT ![h].xo = FALSE, ![h].fd = <<"x", "x", "x">>]
  /\ hist' = Append(hist, EnvRec("ggone", h, [x |-> 1]))
  /\ UNCHANGED <<life, stv, opt, pend, buf, cnt, now, fr, ncalls>>

\* the child is ended by a signal from somewhere else (core = 1: with a core dump flag in the status word)
ChildSignalled(h, sig, core) ==
  /\ EnvOK /\ ch[h].alive = "run" /\ ch[h].self
  /\ ch' = [ch EXCEPT ![h] = Zombie(@, 128 + sig)]
  /\ hist' = Append(hist, EnvRec("die", h, [sig |-> sig + 128 * core]))
  /\ UNCHANGED <<life, stv, opt, pend, buf, cnt, now, fr, ncalls>>

ChildDie(h) ==
  /\ EnvOK /\ ch[h].alive = "run" /\ ch[h].termAt # INF /\ ch[h].termAt <= now
  /\ ch' = [ch EXCEPT ![h] = Zombie(@, 128 + SIGTERM)]
  /\ hist' = Append(hist, EnvRec("die", h, [sig |-> SIGTERM]))
  /\ UNCHANGED <<life, stv, opt, pend, buf, cnt, now, fr, ncalls>>

\* (a child that has ended writes no more, but a descendant that inherited its stdout / stderr may: ChildExitG keeps fd)
ChildOut(h, n) ==
  /\ EnvOK /\ ch[h].alive \in {"run", "zombie", "reaped"} /\ ch[h].fd[2] = "po" /\ pend[h].o
  /\ BLen(buf[h].o) + n <= PipeCap /\ cnt[h].cw1 + n <= MaxOut
  /\ buf' = [buf EXCEPT ![h].o = BAppend(@, 1, n)]
  /\ cnt' = [cnt EXCEPT ![h].cw1 = @ + n]
  /\ hist' = Append(hist, EnvRec("out", h, [n |-> n]))
  /\ UNCHANGED <<life, stv, opt, pend, ch, now, fr, ncalls>>

ChildErr(h, n) ==
  /\ EnvOK /\ ch[h].alive \in {"run", "zombie", "reaped"} /\ ch[h].fd[3] \in {"po", "pe"} /\ cnt[h].cw2 + n <= MaxOut
  /\ IF ch[h].fd[3] = "po"
       THEN /\ pend[h].o /\ BLen(buf[h].o) + n <= PipeCap
            /\ buf' = [buf EXCEPT ![h].o = BAppend(@, 2, n)]
       ELSE /\ pend[h].e /\ BLen(buf[h].e) + n <= PipeCap
            /\ buf' = [buf EXCEPT ![h].e = BAppend(@, 2, n)]
  /\ cnt' = [cnt EXCEPT ![h].cw2 = @ + n]
  /\ hist' = Append(hist, EnvRec("err", h, [n |-> n]))
  /\ UNCHANGED <<life, stv, opt, pend, ch, now, fr, ncalls>>

ChildClose(h, f) ==   \* f in 0..2 (descriptor number)
  /\ EnvOK /\ ch[h].alive = "run" /\ ch[h].fd[f + 1] \in {"pi", "po", "pe"}
  /\ ch' = [ch EXCEPT ![h].fd[f + 1] = "x"]
  /\ hist' = Append(hist, EnvRec("cclose", h, [fd |-> f]))
  /\ UNCHANGED <<life, stv, opt, pend, buf, cnt, now, fr, ncalls>>

\* the child closes its copy of the exit handle (and everything else above 2) and keeps running
ChildCloseX(h) ==
  /\ EnvOK /\ ch[h].alive = "run" /\ ch[h].xo
  /\ ch' = [ch EXCEPT ![h].xo = FALSE]
  /\ hist' = Append(hist, EnvRec("cclosex", h, [x |-> 1]))
  /\ UNCHANGED <<life, stv, opt, pend, buf, cnt, now, fr, ncalls>>

\* the child is stopped (job control, a debugger); it is continued before whatever it does next. A stopped child has not ended:
\* nothing in the contract changes, only the operating system now has something else to tell about it
ChildStop(h) ==
  /\ EnvOK /\ ch[h].alive = "run" /\ ch[h].self
  /\ hist' = Append(hist, EnvRec("cstop", h, [x |-> 1]))
  /\ UNCHANGED <<life, stv, opt, pend, buf, cnt, now, fr, ncalls, ch>>

ChildRead(h, n) ==
  /\ EnvOK /\ ch[h].alive = "run" /\ ch[h].fd[1] = "pi" /\ n > 0 /\ buf[h].i >= n
  /\ buf' = [buf EXCEPT ![h].i = @ - n]
  /\ cnt' = [cnt EXCEPT ![h].cr = @ + n]
  /\ hist' = Append(hist, EnvRec("cread", h, [n |-> n, got |-> n]))
  /\ UNCHANGED <<life, stv, opt, pend, ch, now, fr, ncalls>>

\* Every exported behaviour ends with a probe: a zero-timeout poll for everything on every started handle.  The poll
\* changes nothing and its answer is a function of the state, so the code's state is compared with the model's also
\* after calls whose contract is "nothing changes" - where the one-history-per-state exploration continues from some
\* OTHER history and would never look at this one again.  exp = the admissible <<r, ev..., 0, 0>> (no descriptor, no allocation kept).
ProbeRec(s) ==
  LET hs == {h \in Handles : s.life[h] \in {"run", "exited"}}
      RECURSIVE Lst(_)
      Lst(S) == IF S = {} THEN <<>> ELSE LET m == MinOf(S) IN <<<<m, EV_IN + EV_OUT + EV_ERR + EV_EXIT>>>> \o Lst(S \ {m})
      srcs == Lst(hs)
      d == RunPoll([s EXCEPT !.fr = [NoFrame EXCEPT !.fn = "poll", !.pc = "look", !.a = <<srcs, 0>>, !.t0 = now]])
      alts == IF d.fr.r # 0 THEN {<<d.fr.r>> \o [k \in 1..Len(srcs) |-> 0]} ELSE d.fr.x
  IN [e |-> "probe", src |-> srcs, exp |-> SetToSeq({a \o <<0, 0>> : a \in alts})]

\* export the behaviour that ends with this call-completing transition (ACTION_CONSTRAINT of the MC_* models)
ExportRet ==
  (Len(hist') > Len(hist) /\ hist'[Len(hist')].e = "ret" /\ (ExportStride = 1 \/ TLCFP(hist') % ExportStride = ExportOffset))
    => LET b == Bundle' IN
       PrintT(<<"BEH", ToJson(IF fr'.fn = "none" /\ \E h \in Handles : b.life[h] \in {"run", "exited"}
                                THEN Append(hist', ProbeRec(b)) ELSE hist')>>)

(* ======================= properties checked on the model ======================= *)
LastRet == IF hist # <<>> /\ hist[Len(hist)].e = "ret" THEN hist[Len(hist)] ELSE [e |-> "none"]

TypeOK ==
  /\ \A h \in Handles : life[h] \in {"none", "ns", "run", "exited"}
  /\ \A h \in Handles : ch[h].alive \in {"none", "run", "zombie", "reaped"}
  /\ now \in 0..MaxTime

\* C01c / C14: the life cycle and the child's kernel state stay in step; a child is reaped iff its handle is exited
LifeChild ==
  \A h \in Handles :
    /\ life[h] = "exited" => ch[h].alive = "reaped" /\ stv[h] = ch[h].code /\ ~pend[h].x
    /\ life[h] = "run" => ch[h].alive \in {"run", "zombie"} /\ pend[h].x
    /\ life[h] \in {"ns"} => ~pend[h].i /\ ~pend[h].o /\ ~pend[h].e /\ ~pend[h].x
    /\ ch[h].alive = "reaped" => life[h] \in {"exited", "none"}

\* C02: what is in flight plus what was delivered is what was written (per origin tag)
Conservation ==
  \A h \in Handles : ch[h].alive # "none" =>
    /\ cnt[h].cw1 >= cnt[h].d1 /\ cnt[h].cw2 >= cnt[h].d2
    /\ cnt[h].w = cnt[h].cr + buf[h].i

=============================================================================
