SPECIFICATION TraceSpec
CONSTANTS
  Handles = {1, 2}
  MaxTime = 1000000
  MaxCalls = 1000000
  MaxOut = 1000000
  ExitCodes = {0}
  TermDelay = 2
  ExportStride = 1
  ExportOffset = 0
  PipeCap = 8
CONSTRAINT Progress
POSTCONDITION Report
CHECK_DEADLOCK FALSE
