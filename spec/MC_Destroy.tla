----------------------------- MODULE MC_Destroy -----------------------------
(* Bounded instance for destroy (C15, also C05 C06): every stop policy given at *)
(* start, with and without deadline, every child behaviour, and every state    *)
(* the handle can be in when it is destroyed.                                   *)
EXTENDS Core

CONSTANTS DlOpts, Timeouts, ThirdActs

Loose == FALSE   \* substituted for Core!StrictFailedStart in the cfg
NoStop == <<<<NOOP, 0>>, <<NOOP, 0>>, <<NOOP, 0>>>>
Acts == {<<NOOP, 0>>, <<7, 0>>} \cup {<<a, t>> : a \in {WAITA, TERMINATE, KILL}, t \in Timeouts \cup {INF, DEADLINE}}
Third == IF ThirdActs = "All" THEN Acts ELSE {<<NOOP, 0>>, <<KILL, INF>>}
Policies == IF ThirdActs = "DefaultOnly" THEN {NoStop} ELSE {<<a, b, c>> : a \in Acts, b \in Acts, c \in Third}

StartOpts == {[dl |-> d, stop |-> p, nb |-> FALSE, rin |-> 0, rout |-> 0, rerr |-> 0, input |-> -1,
               term |-> t, self |-> sf, prog |-> pr] :
               d \in DlOpts, p \in Policies, t \in 0..2, sf \in BOOLEAN, pr \in {"/bin/c"}}
\* fork mode: the forked child destroys its copy of the handle and lives on; the parent's destroy must behave as ever
ForkOpts == {[dl |-> d, stop |-> NoStop, nb |-> FALSE, rin |-> 0, rout |-> 0, rerr |-> 0, input |-> -1,
              term |-> t, self |-> FALSE, prog |-> "/bin/c", fork |-> TRUE] : d \in DlOpts, t \in {0, 2}}
\* a deadline an hour away (in milliseconds: beyond 2^31 microseconds): the default policy waits for the child, it sends nothing
FarOpts == {[dl |-> 3600000, stop |-> NoStop, nb |-> FALSE, rin |-> 0, rout |-> 0, rerr |-> 0, input |-> -1,
             term |-> t, self |-> TRUE, prog |-> "/bin/c"] : t \in {0, 2}}
\* nothing piped (all three streams discarded): with a caller that runs without stdin / stdout the exit handle is then the
\* first descriptor the library creates that it keeps
DiscOpts == {[dl |-> d, stop |-> NoStop, nb |-> FALSE, rin |-> R_DISCARD, rout |-> R_DISCARD, rerr |-> R_DISCARD, input |-> -1,
              term |-> t, self |-> TRUE, prog |-> "/bin/c"] : d \in DlOpts, t \in {0, 2}}
FailOpts == {[dl |-> 0, stop |-> NoStop, nb |-> FALSE, rin |-> 0, rout |-> 0, rerr |-> 0, input |-> -1,
              term |-> 0, self |-> FALSE, prog |-> "/nonexistent"]}

NextL ==
  \/ ncalls = 0 /\ New(1)
  \/ ncalls = 1 /\ \E o \in StartOpts \cup FailOpts \cup ForkOpts \cup DiscOpts : Start(1, o)
  \/ ncalls = 2 /\ life[1] = "run" /\ (Wait(1, 0) \/ Terminate(1))
  \/ ncalls >= 1 /\ Destroy(1)
  \/ Destroy(0)
  \/ Resume
  \/ Tick
  \/ \E c \in ExitCodes : ChildExit(1, c)
  \/ ChildDie(1)
  \/ Interrupt
\* a child that closes its exit handle and lives on: destroy's wait then lasts until the child really ends, it is not signalled
\* in the meantime (the library is blocked reaping); kept out of the liveness check below, where it means "never returns"
Next == NextL \/ ChildCloseX(1) \/ (ncalls = 1 /\ \E o \in FarOpts : Start(1, o))   \* (the far-away deadline is likewise kept out of the liveness check)

Spec == Init /\ [][Next]_vars
Export == ExportRet

\* C15 on the model: after destroy everything is closed and the handle is gone
DestroyReleases ==
  LET r == LastRet IN
  (r.e = "ret" /\ \E c \in 2..(Len(hist) - 1) : /\ hist[c].e = "call" /\ hist[c].fn = "destroy" /\ hist[c].h = 1
                                                  /\ \A j \in (c + 1)..(Len(hist) - 1) : hist[j].e = "env")
    => r.nfd = 3 /\ r.nalloc = 0
\* default policy: TERM is never sent before the deadline
DefaultTermNotEarly ==
  LET r == LastRet IN
  (r.e = "ret" /\ Len(hist) >= 6 /\ hist[4].e = "call" /\ hist[4].fn = "start" /\ hist[4].o.stop = NoStop
     /\ \E c \in 6..(Len(hist) - 1) : hist[c].e = "call" /\ hist[c].fn = "destroy" /\ \A j \in (c + 1)..(Len(hist) - 1) : hist[j].e = "env")
    => \A k \in 1..Len(r.sig) : r.sig[k][2] = SIGTERM /\ hist[4].o.dl # 0 /\ r.sig[k][3] >= hist[4].o.dl

(* liveness (checked without VIEW, under fairness): with the default policy, a deadline and a child *)
(* that dies on SIGTERM, destroy returns.                                                            *)
Fair == WF_vars(Tick) /\ WF_vars(Resume) /\ WF_vars(ChildDie(1))
FairSpec == Init /\ [][NextL]_vars /\ Fair
DefaultDestroyReturns ==
  (fr.fn = "destroy" /\ opt[1].stop = Defaulted(NoStop) /\ opt[1].dl # INF /\ ch[1].term # 2 /\ now + TermDelay <= MaxTime)
     ~> (fr.fn = "none")   \* (the last conjunct keeps the bounded clock from cutting the behaviour short)
=============================================================================
