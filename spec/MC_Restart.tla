----------------------------- MODULE MC_Restart -----------------------------
(* A failed start must leave the handle exactly as it was (C04): it is started  *)
(* again with different options and must then behave as if the failed attempt   *)
(* had never happened - deadline, stop policy and mode are those of the second  *)
(* start only.                                                                  *)
EXTENDS Core

NoStop == <<<<NOOP, 0>>, <<NOOP, 0>>, <<NOOP, 0>>>>
KillNow == <<<<KILL, INF>>, <<NOOP, 0>>, <<NOOP, 0>>>>
WaitOnly == <<<<WAITA, 0>>, <<NOOP, 0>>, <<NOOP, 0>>>>
Fail == {[dl |-> d, stop |-> p, nb |-> nb, rin |-> ri, rout |-> 0, rerr |-> R_PIPE, input |-> inp, term |-> 0, self |-> FALSE, prog |-> pr] :
           d \in {0, 1}, p \in {KillNow, NoStop}, nb \in BOOLEAN, ri \in {0}, inp \in {-1, PipeCap + 1}, pr \in {"/nonexistent", "/bin/c"}}
        \* ... or the options are refused up front (input for a stdin that is not a pipe): refused with or without a deadline,
        \* and nothing of the refused options - its deadline least of all - is in force after the next start (C13)
        \cup {[dl |-> d, stop |-> KillNow, nb |-> FALSE, rin |-> R_DISCARD, rout |-> 0, rerr |-> R_PIPE, input |-> 0, term |-> 0, self |-> FALSE, prog |-> "/bin/c"] :
                d \in {0, 1}}
Ok == {[dl |-> d, stop |-> p, nb |-> nb, rin |-> 0, rout |-> 0, rerr |-> 0, input |-> -1, term |-> t, self |-> TRUE, prog |-> "/bin/c"] :
           d \in {0, 2, 3600000}, p \in {WaitOnly, NoStop}, nb \in BOOLEAN, t \in {0, 2}}   \* (3600000: an hour - a deadline is any positive number of milliseconds)

Next ==
  \/ ncalls = 0 /\ New(1)
  \/ ncalls = 1 /\ \E o \in Fail : StartError(o) # 0 /\ ~(o.input > 0 /\ o.prog # "/bin/c") /\ Start(1, o)   \* (one cause at a time)
  \/ ncalls = 2 /\ \E o \in Ok : Start(1, o)
  \/ ncalls = 2 /\ Destroy(1)          \* ... or destroyed as it is: nothing of the failed attempt is left to release twice
  \/ ncalls >= 3 /\ life[1] = "run" /\
       \/ \E t \in {0, INF} : Poll(<<<<1, EV_EXIT + EV_OUT>>>>, t)
       \/ Wait(1, DEADLINE)
       \/ Read(1, S_OUT, 1, 0) \/ Read(1, S_ERR, 1, 0)
       \/ Destroy(1)
  \/ Resume
  \/ Tick
  \/ ChildExit(1, 3)
  \/ ChildDie(1)

\* The model says a failed start changes nothing, so all failed attempts lead to ONE model state and TLC would keep a single
\* history for it. What is being tested here is precisely whether the CODE forgets the failed attempt, so the view keeps the
\* failed attempt's options apart: every (failed options, later options) pair gets its own continuation.
viewR == <<view, IF Len(hist) >= 4 THEN hist[4] ELSE 0>>
Spec == Init /\ [][Next]_vars
Export == ExportRet
=============================================================================
