------------------------------ MODULE LeakTrace ------------------------------
(* C05 / C06 / C14 under a fault injected ANYWHERE: each record is one execution of a TLC-generated call sequence    *)
(* (life / stream families) in which the g-th fault point of the whole script - any system or library call made by   *)
(* any API function, allocations and close itself included - failed once; afterwards every handle was destroyed.     *)
(* Whatever the calls returned, the bookkeeping must balance.                                                         *)
EXTENDS Integers, Sequences, FiniteSets, TLC, Json, IOUtils

Tr == ndJsonDeserialize(IOEnv.TRACE)

Clauses(rec) ==
  LET mons == {rec.mon[i][1] : i \in 1..Len(rec.mon)} IN
  IF rec.hung = 1 THEN {}    \* the script's environment no longer fits after the fault: not judged
  ELSE
  (IF rec.nfd # rec.basefd THEN {"C05:descriptors-left-after-destroy"} ELSE {}) \cup
  (IF rec.nalloc # 0 THEN {"C05:memory-left-after-destroy"} ELSE {}) \cup
  (IF mons \cap {1, 2, 5} # {} THEN {"C05:double-or-foreign-close-or-bad-free"} ELSE {}) \cup
  (IF rec.failed_children_unreaped # 0 /\ ~(rec.gkind = 10 /\ rec.hitr = -10) THEN {"C05:child-of-failed-start-left-unreaped"} ELSE {}) \cup
  (IF mons \cap {3, 4, 9} # {} THEN {"C06:kill-or-waitpid-on-foreign-pid"} ELSE {}) \cup
  (IF mons \cap {6, 7} # {} THEN {"C14:use-of-bad-descriptor-or-child-side-crash"} ELSE {}) \cup
  \* a poll that could not get its working memory says so: "nothing left to poll" (or an event) is a statement about the streams
  \* a reap that failed produced no status: the wait or stop it struck reports an error, never an exit status
  (IF rec.hitfn \in {"wait", "stop"} /\ rec.gkind = 10 /\ rec.hitr >= 0 THEN {"C01:status-reported-although-the-reap-failed"} ELSE {}) \cup
  (IF rec.hitfn = "poll" /\ rec.gkind = 20 /\ rec.hitr # -12 THEN {"C09:poll-reports-something-else-than-out-of-memory"} ELSE {})

VARIABLES l, bad
vars == <<l, bad>>
Init == l = 1 /\ bad = <<>>
Step == /\ l <= Len(Tr) /\ l' = l + 1
        /\ LET c == Clauses(Tr[l]) IN bad' = IF c = {} \/ Len(bad) >= 300 THEN bad ELSE Append(bad, [id |-> Tr[l].id, why |-> c])
Report == l = Len(Tr) + 1 /\ l' = l + 1 /\ UNCHANGED bad /\ PrintT(<<"VERDICT", ToJson(bad)>>)
Next == Step \/ Report
Spec == Init /\ [][Next]_vars
Accepted == TLCGet("stats").diameter = Len(Tr) + 2
=============================================================================
