------------------------------ MODULE MC_Life ------------------------------
(* Bounded instance for the life-cycle family (C14, also C01 C05 C06): every   *)
(* sequence of API calls over one handle (and the NULL handle) with            *)
(* representative arguments, including every misuse the contract mentions.     *)
EXTENDS Core

CONSTANTS Depth   \* "small" / "full" argument sets

NoStop == <<<<NOOP, 0>>, <<NOOP, 0>>, <<NOOP, 0>>>>
KillNow == <<<<KILL, INF>>, <<NOOP, 0>>, <<NOOP, 0>>>>
Base == [dl |-> 0, stop |-> KillNow, nb |-> TRUE, rin |-> 0, rout |-> 0, rerr |-> 0, input |-> -1,
         term |-> 0, self |-> TRUE, prog |-> "/bin/c"]
StartOpts ==
  { Base,
    [Base EXCEPT !.prog = "/nonexistent"],                \* failing start: the handle stays startable
    [Base EXCEPT !.rin = R_DISCARD, !.input = 1],         \* invalid options
    [Base EXCEPT !.rout = R_DISCARD, !.rerr = R_PIPE],
    [Base EXCEPT !.input = 1],
    [Base EXCEPT !.dl = 1],                               \* calls entered before and after the deadline
    Base @@ [fork |-> TRUE] } \cup
  (IF Depth = "full" THEN { [Base EXCEPT !.rerr = R_STDOUT], [Base EXCEPT !.rin = R_PARENT, !.term = 2, !.stop = NoStop, !.dl = 1] } ELSE {})

Hs == {0, 1}
Stops == { KillNow, <<<<WAITA, 0>>, <<NOOP, 0>>, <<NOOP, 0>>>>, <<<<TERMINATE, 0>>, <<7, 0>>, <<NOOP, 0>>>> }

Next ==
  \/ New(1)
  \/ \E h \in Hs, o \in StartOpts : Start(h, o)
  \/ \E h \in Hs : Pid(h) \/ Terminate(h) \/ Kill(h) \/ Destroy(h)
  \/ \E h \in Hs, t \in {0, 1} : Wait(h, t)
  \/ \E h \in Hs, a \in Stops : Stop(h, a)
  \/ \E h \in Hs, s \in {S_IN, S_OUT, S_ERR, 3} : Close(h, s)
  \/ \E h \in Hs, s \in {S_IN, S_OUT, S_ERR, 3}, n \in {1, 2} : Read(h, s, n, 0)
  \/ \E h \in Hs : Read(h, S_OUT, 1, 1)
  \/ buf[1].o # <<>> /\ Read(1, S_OUT, 0, 0)
  \/ \E h \in Hs, n \in {0, 1, 3} : Write(h, n, 0)
  \/ \E h \in Hs, n \in {0, 2} : Write(h, n, 1)
  \/ \E m \in {EV_OUT, EV_IN + EV_OUT + EV_ERR + EV_EXIT, 0}, t \in {0, 1} : Poll(<<<<1, m>>>>, t)
  \/ Poll(<<>>, 0) \/ Poll(<<<<0, EV_OUT>>>>, 0)
  \/ Resume
  \/ Tick
  \/ ChildExit(1, 0)     \* (the boundary value: "exited with 0" must count as exited everywhere)
  \/ ChildOut(1, 1) \/ ChildErr(1, 1)
  \/ ChildClose(1, 1)
  \/ ChildRead(1, 1)
  \/ ChildCloseX(1)
  \/ ChildExitG(1, 0) \/ GrandGone(1)
  \/ Interrupt

Spec == Init /\ [][Next]_vars
Export == ExportRet

\* C14: the handle only moves none -> ns -> run -> exited (-> none by destroy); ns <- run never happens
LifeOrder ==
  [][\A h \in Handles :
       \/ life'[h] = life[h]
       \/ life[h] = "none" /\ life'[h] = "ns"
       \/ life[h] = "ns" /\ life'[h] = "run"
       \/ life[h] = "run" /\ life'[h] = "exited"
       \/ life'[h] = "none"]_vars
=============================================================================
