------------------------------ MODULE MC_Status ------------------------------
(* C01 sweep: every exit code 0..255 and every terminating signal (with and   *)
(* without core-dump flag); the status is reported exactly, again by every    *)
(* later wait / stop, with nothing sent and nothing reaped a second time.     *)
EXTENDS Core

CONSTANTS Signals

NoStop == <<<<NOOP, 0>>, <<NOOP, 0>>, <<NOOP, 0>>>>
O == [dl |-> 0, stop |-> NoStop, nb |-> FALSE, rin |-> 0, rout |-> 0, rerr |-> 0, input |-> -1,
      term |-> 2, self |-> TRUE, prog |-> "/bin/c"]

Next ==
  \/ ncalls = 0 /\ New(1)
  \/ ncalls = 1 /\ Start(1, O)
  \/ ncalls = 2 /\ ch[1].alive = "zombie" /\ (Wait(1, INF) \/ Wait(1, 0) \/ Stop(1, <<<<WAITA, 0>>, <<NOOP, 0>>, <<NOOP, 0>>>>))
  \/ ncalls = 2 /\ ch[1].alive = "run" /\ Wait(1, INF)
  \/ ncalls \in {3, 4} /\ life[1] = "exited" /\
       (Wait(1, INF) \/ Wait(1, 0) \/ Stop(1, <<<<KILL, INF>>, <<NOOP, 0>>, <<NOOP, 0>>>>) \/ Terminate(1) \/ Kill(1) \/ Pid(1))
  \/ ncalls = 5 /\ Destroy(1)
  \/ Resume
  \/ \E c \in ExitCodes : ChildExit(1, c)
  \/ \E s \in Signals, core \in {0, 1} : ChildSignalled(1, s, core)
  \* the child gives up the exit handle and is then stopped for a while, before or while it is waited for
  \/ (ncalls = 2 /\ ChildCloseX(1))
  \/ (~ch[1].xo /\ ~(\E k \in 1..Len(hist) : hist[k].e = "env" /\ hist[k].k = "cstop") /\ ChildStop(1))

Spec == Init /\ [][Next]_vars
Export == ExportRet
\* The model state after the child's end is the same with and without the core-dump flag (the flag is not part of the status
\* the library reports), so one history would stand for both; what is tested is whether the CODE ignores the flag, so the
\* view keeps the environment records of the history apart.
viewS == <<view, {hist[k] : k \in {j \in 1..Len(hist) : hist[j].e = "env"}}>>

Stable == life[1] = "exited" => (stv[1] = ch[1].code /\ ch[1].alive = "reaped")
=============================================================================
