---------------------------- MODULE MC_DrainBig ----------------------------
(* Drain with output volumes around the size of drain's own read buffer     *)
(* (DrainChunk = 4096): a stream that delivers exactly one buffer-full,     *)
(* one byte less, one byte more, and then pauses or closes; both streams;   *)
(* deadlines expiring in the pause; blocking and nonblocking mode.  The     *)
(* run-length coded pipe contents of Core make the 8 KiB pipe free for TLC. *)
EXTENDS Core

KillNow == <<<<KILL, INF>>, <<NOOP, 0>>, <<NOOP, 0>>>>
StartOpts == {[dl |-> d, stop |-> KillNow, nb |-> nb, rin |-> R_DISCARD, rout |-> 0, rerr |-> re, input |-> -1,
               term |-> 0, self |-> TRUE, prog |-> "/bin/c"] : d \in {0, 1}, nb \in BOOLEAN, re \in {R_PIPE, R_STDOUT}}
\* (at most one buffer-sized write and a few single bytes per stream: MaxOut = DrainChunk + 2)
Plain == <<<<0, 0>>, <<0, 0>>>>
Sizes == {DrainChunk - 1, DrainChunk, DrainChunk + 1, 1}

\* to keep the instance small the child does one buffer-sized write before the drain at most; everything else it does
\* (single bytes, another buffer-full, stderr, closing, ending, the clock) happens while the drain is waiting
InCall == fr.fn # "none"
Next ==
  \/ ncalls = 0 /\ New(1)
  \/ ncalls = 1 /\ \E o \in StartOpts : Start(1, o)
  \/ ncalls = 2 /\ (Drain(1, Plain, 0) \/ Drain(1, <<<<2, -5>>, <<0, 0>>>>, 0))
  \/ Resume
  \/ ~InCall /\ ncalls = 2 /\ cnt[1].cw1 = 0 /\ \E n \in {DrainChunk - 1, DrainChunk, DrainChunk + 1} : ChildOut(1, n)
  \/ InCall /\
       \/ Tick
       \/ ChildOut(1, DrainChunk)
       \/ cnt[1].cw1 % DrainChunk \in {0, DrainChunk - 1} /\ ChildOut(1, 1)   \* (a single byte only next to a buffer boundary)
       \/ ChildErr(1, DrainChunk)
       \/ \E f \in {1, 2} : ChildClose(1, f)
       \/ ChildExit(1, 3)

Spec == Init /\ [][Next]_vars
Export == ExportRet
=============================================================================
