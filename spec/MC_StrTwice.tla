---------------------------- MODULE MC_StrTwice ----------------------------
(* The library's string sink used twice on the caller's SAME string (C16:    *)
(* "accumulates exactly the bytes received ... also when it was non-empty    *)
(* before"): a first drain that ends early (deadline, interrupt) leaves a    *)
(* partly filled string, the caller shortens it in place or not, and a       *)
(* second drain appends to it.  Which sinks the first drain used is not part *)
(* of the model state, so the view keeps it apart (one continuation per      *)
(* first-drain sink choice).                                                 *)
EXTENDS Core

KillNow == <<<<KILL, INF>>, <<NOOP, 0>>, <<NOOP, 0>>>>
StartOpts == {[dl |-> d, stop |-> KillNow, nb |-> FALSE, rin |-> R_DISCARD, rout |-> 0, rerr |-> R_PIPE, input |-> -1,
               term |-> 0, self |-> TRUE, prog |-> "/bin/c"] : d \in {0, 1}}
Str(l0) == <<0, ENOMEM, "str", l0>>
CONSTANT Both     \* TRUE: the string sink on either stream (thorough tier); FALSE: on stdout only
Sinks == {<<Str(l0), <<0, 0>>>> : l0 \in {0, 3}} \cup (IF Both THEN {<<<<0, 0>>, Str(l0)>> : l0 \in {0, 3}} ELSE {})

Next ==
  \/ ncalls = 0 /\ New(1)
  \/ ncalls = 1 /\ \E o \in StartOpts : Start(1, o)
  \/ ncalls \in {2, 3} /\ \E sk \in Sinks : Drain(1, sk, 0)
  \/ Resume
  \/ Tick
  \/ Interrupt
  \/ \E n \in {1, 2} : ChildOut(1, n) \/ (Both /\ ChildErr(1, n))
  \/ \E f \in {1, 2} : (Both \/ f = 1) /\ ChildClose(1, f)
  \/ ChildExit(1, 3)

viewT == <<view, {hist[k].sinks : k \in {j \in 1..Len(hist) : hist[j].e = "call" /\ hist[j].fn = "drain"}}>>
Spec == Init /\ [][Next]_vars
Export == ExportRet
=============================================================================
