------------------------------ MODULE MC_Stop ------------------------------
(* Bounded instance for the stop / wait / terminate / kill / destroy family  *)
(* (C01 C06 C07 C15): one handle, every stop triple, every child behaviour.  *)
EXTENDS Core

CONSTANTS DlOpts, Timeouts, MaxStops, ThirdActs

NoStop == <<<<NOOP, 0>>, <<NOOP, 0>>, <<NOOP, 0>>>>
KillNow == <<<<KILL, INF>>, <<NOOP, 0>>, <<NOOP, 0>>>>
Acts == {<<NOOP, 0>>, <<7, 0>>} \cup {<<a, t>> : a \in {WAITA, TERMINATE, KILL}, t \in Timeouts \cup {INF, DEADLINE}}
Third == IF ThirdActs = "All" THEN Acts ELSE {<<NOOP, 0>>, <<7, 0>>, <<KILL, INF>>, <<WAITA, 0>>}
Triples == {<<a, b, c>> : a \in Acts, b \in Acts, c \in Third}

\* fork mode: every combination in the thorough tier, two representatives in the quick tier
StartOpts == ({[dl |-> d, stop |-> NoStop, nb |-> FALSE, rin |-> 0, rout |-> 0, rerr |-> 0, input |-> -1,
               term |-> t, self |-> sf, prog |-> "/bin/c", fork |-> fk] : d \in DlOpts, t \in 0..2, sf \in BOOLEAN, fk \in BOOLEAN}
             \ (IF ThirdActs = "All" THEN {} ELSE
                 {[dl |-> d, stop |-> NoStop, nb |-> FALSE, rin |-> 0, rout |-> 0, rerr |-> 0, input |-> -1,
                   term |-> t, self |-> sf, prog |-> "/bin/c", fork |-> TRUE] : d \in DlOpts, t \in 1..2, sf \in BOOLEAN}))
             \* a policy given at start is for destroy / run only: an explicit request, also the all-noop one, ignores it
             \cup {[dl |-> d, stop |-> KillNow, nb |-> FALSE, rin |-> 0, rout |-> 0, rerr |-> 0, input |-> -1,
                     term |-> 2, self |-> TRUE, prog |-> "/bin/c", fork |-> FALSE] : d \in DlOpts}
             \* a child that cannot be signalled: the failed action's error is the result, no later action is tried
             \cup {[dl |-> d, stop |-> NoStop, nb |-> FALSE, rin |-> 0, rout |-> 0, rerr |-> 0, input |-> -1,
                     term |-> 2, self |-> TRUE, prog |-> "/bin/c", fork |-> FALSE, kf |-> TRUE] : d \in DlOpts}

Next ==
  \/ ncalls = 0 /\ New(1)
  \/ ncalls = 1 /\ \E o \in StartOpts : Start(1, o)
  \/ ncalls >= 2 /\ ncalls < 2 + MaxStops /\ \E a \in Triples : Stop(1, a)
  \/ ncalls >= 2 /\ \E t \in Timeouts \cup {INF, DEADLINE} : Wait(1, t)
  \/ ncalls >= 2 /\ (Terminate(1) \/ Kill(1))
  \/ Resume
  \/ Tick
  \/ \E c \in ExitCodes : ChildExit(1, c)
  \/ ChildDie(1)
  \/ ChildCloseX(1)
  \/ ChildExitG(1, 3) \/ GrandGone(1)
  \/ Interrupt

Spec == Init /\ [][Next]_vars

Export == ExportRet

(* ---- properties (C01, C06, C07) on the model ---- *)
\* a status is reported only for a child that has really ended and been reaped, and equals its status
WaitTruthful ==
  LET r == LastRet IN
  (r.e = "ret" /\ "r" \in DOMAIN r /\ hist[Len(hist) - 1].e # "ret") =>
     LET c == CHOOSE k \in 1..Len(hist) : hist[k].e = "call" /\ \A j \in (k + 1)..(Len(hist) - 1) : hist[j].e = "env" IN
     (hist[c].fn \in {"wait", "stop"} /\ r.r \in Int /\ r.r >= 0) => (ch[1].alive = "reaped" /\ r.r = ch[1].code /\ life[1] = "exited")

\* signals are only sent to the unreaped own child, never after the reap
NoSignalAfterReap ==
  LET r == LastRet IN
  (r.e = "ret") => \A k \in 1..Len(r.sig) : r.sig[k][1] = 1
\* nothing is ever recorded as sent to a child that cannot be signalled, and a stop on it never reports a status it did not reap
KfNoSignal ==
  LET r == LastRet IN
  (r.e = "ret" /\ ch[1].kf) => r.sig = <<>>
=============================================================================
