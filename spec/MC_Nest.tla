------------------------------ MODULE MC_Nest ------------------------------
(* Re-entrancy (C16): a sink that, on its first data, drains ANOTHER child on   *)
(* the same thread before it looks at its own chunk.  The outer drain must be   *)
(* unaffected: its chunk intact (child 1 writes stdout, child 2 stderr, so a    *)
(* shared buffer shows as foreign bytes), its counts its own; the inner drain   *)
(* delivers exactly child 2's output.                                           *)
EXTENDS Core

KillNow == <<<<KILL, INF>>, <<NOOP, 0>>, <<NOOP, 0>>>>
O == [dl |-> 0, stop |-> KillNow, nb |-> FALSE, rin |-> R_DISCARD, rout |-> 0, rerr |-> R_PIPE, input |-> -1, term |-> 0, self |-> TRUE, prog |-> "/bin/c"]
Plain == <<<<0, 0>>, <<0, 0>>>>
NestOut == <<<<0, 0, "nest", 2, 0>>, <<0, 0>>>>
NestErr == <<<<0, 0>>, <<0, 0, "nest", 2, 0>>>>

Next ==
  \/ ncalls = 0 /\ New(1)
  \/ ncalls = 1 /\ Start(1, O)
  \/ ncalls = 2 /\ New(2)
  \/ ncalls = 3 /\ Start(2, O)
  \/ ncalls = 4 /\ \E sk \in {NestOut, NestErr, Plain} : Drain(1, sk, 0)
  \/ ncalls = 5 /\ Drain(2, Plain, 0)
  \/ Resume
  \/ \E n \in {1, 3} : ChildOut(1, n) \/ ChildErr(1, n) \/ ChildErr(2, n) \/ ChildOut(2, n)
  \/ \E h \in {1, 2} : ChildExit(h, 3)

Spec == Init /\ [][Next]_vars
Export == ExportRet
=============================================================================
