----------------------------- MODULE FaultTrace -----------------------------
(* Trace validation of faulted starts (C04 C05 C06 C12).  Each line of the     *)
(* trace is the record of one execution                                        *)
(*     new ; start under an injected fault plan ; pid ; start again ; destroy  *)
(* observed at the libc boundary of the real code.  The contract below says    *)
(* which outcomes are allowed; TLC evaluates it on every record and reports    *)
(* the clauses a record violates.                                              *)
EXTENDS Integers, Sequences, FiniteSets, TLC, Json, IOUtils

Tr == ndJsonDeserialize(IOEnv.TRACE)

VARIABLES l, bad
vars == <<l, bad>>

EINVAL == -22

\* rec: [scen, faults: <<<<side, index, errno, kind, ord>>...>>, r, forks, left, pidr, cexec, wired, dnfd, dnalloc, maskok, dispok, cwdok,
\*       launched, cclean, r2, dnfd2, dnalloc2, left2, mon: <<<<code, a>>...>>, restorer: BOOLEAN (a fault hit the mask-restoring call), childsig: BOOLEAN]
Clauses(rec) ==
  LET errs == {-rec.faults[i][3] : i \in 1..Len(rec.faults)}
      mons == {rec.mon[i][1] : i \in 1..Len(rec.mon)}
  IN
  \* C04: all or nothing, truthful
  (IF rec.r < 0 /\ rec.left # 0 THEN {"C04:child-left-behind-after-failed-start", "C05:child-of-failed-start-left-unreaped"} ELSE {}) \cup
  (IF rec.r < 0 /\ (rec.dnfd # 0 \/ rec.dnalloc # 0) THEN {"C04:failed-start-left-resources", "C05:failed-start-left-resources"} ELSE {}) \cup
  (IF rec.r < 0 /\ rec.r2 # 1 THEN {"C04:handle-not-restartable-after-failed-start"} ELSE {}) \cup
  (IF rec.r < 0 /\ (rec.r2 # 1 \/ rec.pidr # EINVAL \/ rec.dnfd # 0) THEN {"C14:failed-start-did-not-leave-the-handle-not-started"} ELSE {}) \cup
  (IF rec.r < 0 /\ rec.r \notin errs THEN {"C04:error-is-not-the-injected-cause"} ELSE {}) \cup
  \* (not judged when the injected fault was the child's error report itself: no channel is left to report through)
  (IF rec.r > 0 /\ ~rec.reportfault /\ (rec.forks # 1 \/ rec.cexec # 1 \/ rec.pidr # 1)
     THEN {"C04:success-reported-without-a-running-program", "C06:running-handle-without-own-child"} ELSE {}) \cup
  (IF rec.r > 0 /\ ~rec.reportfault /\ rec.wired # 1 THEN {"C04:success-reported-but-child-not-wired-as-requested"} ELSE {}) \cup
  \* C03 (and C04's "the requested program really was executed"): a fault that start survives must not change what is launched
  (IF rec.r > 0 /\ ~rec.reportfault /\ rec.launched # 1
     THEN {"C03:success-reported-but-program-arguments-environment-or-directory-differ", "C04:success-reported-but-another-program-was-executed"} ELSE {}) \cup
  (IF rec.r > 0 /\ rec.r2 # EINVAL THEN {"C14:second-start-accepted-on-running-handle"} ELSE {}) \cup
  (IF rec.r = 0 THEN {"C04:start-returned-0-outside-fork-mode"} ELSE {}) \cup
  \* C05: nothing leaked after destroy, no bad close / free on any path
  (IF rec.dnfd2 # 0 \/ rec.dnalloc2 # 0 THEN {"C05:descriptors-or-memory-left-after-destroy"} ELSE {}) \cup
  (IF rec.left2 # 0 THEN {"C05:child-left-unreaped-after-destroy"} ELSE {}) \cup
  (IF mons \cap {1, 2, 5} # {} THEN {"C05:double-or-foreign-close-or-bad-free"} ELSE {}) \cup
  \* C06: only the own unreaped child is signalled / waited for
  (IF mons \cap {3, 4, 9} # {} THEN {"C06:kill-or-waitpid-on-foreign-pid"} ELSE {}) \cup
  (IF 6 \in mons THEN {"C14:child-side-crash"} ELSE {}) \cup
  \* C12: the caller is left untouched (unless the fault hit the restoring call itself); the child starts clean
  (IF ~rec.restorer /\ (rec.maskok # 1 \/ rec.dispok # 1 \/ rec.cwdok # 1) THEN {"C12:caller-signal-mask-or-state-changed"} ELSE {}) \cup
  (IF rec.r > 0 /\ ~rec.childsig /\ rec.cclean # 1 THEN {"C12:child-signal-state-not-clean"} ELSE {})

Init == l = 1 /\ bad = <<>>
Step ==
  /\ l <= Len(Tr)
  /\ l' = l + 1
  /\ LET c == Clauses(Tr[l]) IN
     bad' = IF c = {} THEN bad ELSE Append(bad, [i |-> l, id |-> Tr[l].id, why |-> c])
Report == l = Len(Tr) + 1 /\ l' = l + 1 /\ UNCHANGED bad /\ PrintT(<<"VERDICT", ToJson(bad)>>)
Next == Step \/ Report
Spec == Init /\ [][Next]_vars
Accepted == TLCGet("stats").diameter = Len(Tr) + 2
=============================================================================
