------------------------------- MODULE MC_Run -------------------------------
(* reproc_run_ex (C16, also C01 C05 C15): start + drain + stop + destroy in    *)
(* one call, with every child behaviour, sinks that fail, deadlines.           *)
EXTENDS Core

CONSTANTS DlOpts, SinkFails, Policies

NoStop == <<<<NOOP, 0>>, <<NOOP, 0>>, <<NOOP, 0>>>>
Pol(k) == CASE k = 0 -> NoStop
            [] k = 1 -> <<<<KILL, INF>>, <<NOOP, 0>>, <<NOOP, 0>>>>
            [] k = 2 -> <<<<WAITA, 1>>, <<TERMINATE, 1>>, <<KILL, INF>>>>
            [] k = 3 -> <<<<WAITA, 0>>, <<NOOP, 0>>, <<NOOP, 0>>>>
            [] k = 4 -> <<<<TERMINATE, INF>>, <<NOOP, 0>>, <<NOOP, 0>>>>
Opts == {[dl |-> d, stop |-> Pol(p), nb |-> nb, rin |-> ri, rout |-> 0, rerr |-> re, input |-> -1,
          term |-> t, self |-> TRUE, prog |-> pr] :
          d \in DlOpts, p \in Policies, nb \in BOOLEAN, ri \in {R_DISCARD}, re \in {R_PIPE, R_STDOUT, R_DEFAULT},
          t \in 0..2, pr \in {"/bin/c"}} \cup
        {[dl |-> 0, stop |-> NoStop, nb |-> FALSE, rin |-> 0, rout |-> 0, rerr |-> 0, input |-> -1, term |-> 0, self |-> FALSE, prog |-> "/nonexistent"]}
Sinks == {<<<<0, 0>>, <<0, 0>>>>} \cup {<<<<k, -5>>, <<0, 0>>>> : k \in SinkFails} \cup {<<<<0, 0>>, <<k, -7>>>> : k \in SinkFails}
         \cup {<<<<0, 0>>, <<k, EPIPE>>>> : k \in SinkFails}
         \* the library's own discarding sinks on piped streams: the output is still read (the child is never left blocked on a full pipe)
         \cup {<<<<0, 0, "discard">>, <<0, 0, "discard">>>>, <<<<0, 0, "null">>, <<0, 0, "null">>>>, <<<<0, 0, "discard">>, <<0, 0>>>>}

Next ==
  \/ ncalls = 0 /\ \E o \in Opts, sk \in Sinks : RunCall(1, o, sk)
  \/ ncalls = 0 /\ \E o \in Opts : o.rerr = R_DEFAULT /\ o.input = -1 /\ (RunSimple(1, o) \/ RunSimple(1, [o EXCEPT !.rout = R_DISCARD]))
  \/ Resume
  \/ Tick
  \/ ChildExit(1, 3)
  \/ ChildDie(1)
  \/ \E n \in {1, 2} : ChildOut(1, n)
  \/ ChildErr(1, 1)
  \/ \E f \in {1, 2} : ChildClose(1, f)
  \/ Interrupt

Spec == Init /\ [][Next]_vars
Export == ExportRet

\* run returns a status only if the child was reaped, and leaves nothing behind
RunTruthful ==
  LET r == LastRet IN
  (r.e = "ret") => /\ r.nfd = 3 /\ r.nalloc = 0
                   /\ (r.r \in Int /\ r.r >= 0) => ch[1].alive = "reaped" /\ r.r = ch[1].code
=============================================================================
