----------------------------- MODULE MC_Stream -----------------------------
(* Bounded instance for the stream family (C02 C16 C17): one child, both output *)
(* streams (separate, or stderr merged into stdout), stdin, blocking and        *)
(* nonblocking mode, start-up input, drain with failing sinks, every ordering   *)
(* of the child's writes / closes / exit relative to the parent's calls.        *)
EXTENDS Core

CONSTANTS Inputs, ReadSizes, WriteSizes, DlOpts, Mode, SinkFails, NbOpts

KillNow == <<<<KILL, INF>>, <<NOOP, 0>>, <<NOOP, 0>>>>
StartOpts == {[dl |-> d, stop |-> KillNow, nb |-> nb, rin |-> 0, rout |-> 0, rerr |-> re, input |-> inp,
               term |-> 0, self |-> TRUE, prog |-> "/bin/c"] :
               d \in DlOpts, nb \in NbOpts, re \in {R_PIPE, R_STDOUT, R_DEFAULT}, inp \in {IF i = 99 THEN -1 ELSE i : i \in Inputs}}   \* 99 encodes "no start-up input" (a cfg cannot hold -1)
             \* fork mode: the forked child plays the child's part itself, the streams must behave exactly the same
             \cup {[dl |-> d, stop |-> KillNow, nb |-> FALSE, rin |-> 0, rout |-> 0, rerr |-> R_PIPE, input |-> -1,
                     term |-> 0, self |-> TRUE, prog |-> "/bin/c", fork |-> TRUE] : d \in DlOpts}
             \* a deadline bounds wait / poll / drain only: nonblocking reads and writes never wait for it
             \cup (IF Mode = "io" THEN {[dl |-> 2, stop |-> KillNow, nb |-> TRUE, rin |-> 0, rout |-> 0, rerr |-> R_PIPE, input |-> -1,
                                         term |-> 0, self |-> TRUE, prog |-> "/bin/c"]} ELSE {})
Sinks == {<<<<0, 0>>, <<0, 0>>>>} \cup {<<<<k, -5>>, <<0, 0>>>> : k \in SinkFails} \cup {<<<<0, 0>>, <<k, 7>>>> : k \in SinkFails}
         \* a sink whose own result happens to be the library's "closed pipe" value: passed through like any other
         \cup {<<<<k, EPIPE>>, <<0, 0>>>> : k \in SinkFails}
         \* the library's string sink: empty or non-empty before, allocation failing at growth step k (0 = never)
         \cup {<<<<k, ENOMEM, "str", l0>>, <<0, 0>>>> : k \in SinkFails \cup {0}, l0 \in {0, 3}}
         \cup {<<<<0, ENOMEM, "str", -1>>, <<0, 0>>>>, <<<<0, 0>>, <<0, ENOMEM, "str", -1>>>>}   \* (a NULL string to begin with)
         \cup {<<<<0, 0>>, <<k, ENOMEM, "str", l0>>>> : k \in SinkFails \cup {0}, l0 \in {0, 3}}
         \cup {<<<<0, 0, "discard">>, <<0, 0, "null">>>>, <<<<0, 0, "null">>, <<0, 0>>>>}

Next ==
  \/ New(1)
  \/ \E o \in StartOpts : life[1] = "ns" /\ Start(1, o)
  \/ life[1] \in {"run", "exited"} /\ Mode = "io" /\
       \/ \E s \in {S_OUT, S_ERR}, n \in ReadSizes : (n > 0 \/ StreamBuf(Bundle, 1, s) # <<>>) /\ Read(1, s, n, 0)
       \/ \E n \in WriteSizes : Write(1, n, 0)
       \/ \E s \in {S_IN, S_OUT, S_ERR} : Close(1, s)
       \/ Wait(1, 0)
       \/ (life[1] = "run" /\ Stop(1, KillNow))   \* stopping the child ends the child, not the streams: what it wrote is still there to read
       \/ \E mk \in {EV_IN, EV_IN + EV_OUT + EV_ERR + EV_EXIT} : Poll(<<<<1, mk>>>>, 0)
  \/ life[1] \in {"run", "exited"} /\ Mode = "drain" /\
       \/ \E s \in {S_OUT, S_ERR} : Close(1, s)
       \/ \E sk \in Sinks : Drain(1, sk, 0)
       \/ Drain(1, <<<<0, 0>>, <<0, 0>>>>, 1) \/ Drain(0, <<<<0, 0>>, <<0, 0>>>>, 0)
  \/ Resume
  \/ Tick
  \/ ChildExit(1, 3)
  \* the child lets go of the exit handle, then ends while a descendant keeps its streams: the exit status can be collected, and
  \* the streams go on exactly as before (a nonblocking read of an empty stream still does not wait, it is not at its end either)
  \* (bounded: it lets go of the exit handle first thing or not at all)
  \/ (Mode = "io" /\ ncalls = 2 /\ hist[Len(hist)].e = "ret" /\ hist[Len(hist) - 1].e = "call" /\ hist[Len(hist) - 1].fn = "start"
        /\ hist[Len(hist) - 1].o.nb = 1 /\ hist[Len(hist) - 1].o.input = -1 /\ hist[Len(hist) - 1].o.dl = 0 /\ hist[Len(hist) - 1].o.rerr = R_PIPE
        /\ ChildCloseX(1)) \/ (Mode = "io" /\ ~ch[1].xo /\ ChildExitG(1, 3))
  \/ \E n \in {1, 2} : ChildOut(1, n)
  \/ \E n \in {1, 2} : ChildErr(1, n)
  \/ \E f \in {0, 1, 2} : ChildClose(1, f)
  \/ \E n \in {1, 2} : ChildRead(1, n)
  \/ Interrupt

Spec == Init /\ [][Next]_vars
Export == ExportRet
=============================================================================
