------------------------------- MODULE Launch -------------------------------
(***************************************************************************)
(* Options and launch contract of reproc_start (C10 C11 C12 C13 C03):       *)
(*  - Resolve: the documented option rules of reproc.h as a verdict        *)
(*    (reject up front / reject late / unspecified / accept with the       *)
(*    effective redirect of each stream);                                  *)
(*  - Wiring: for an accepted request, what the child's descriptors 0,1,2  *)
(*    must refer to (by object identity and direction), which other        *)
(*    descriptors it may hold (only the exit handle), and which pipe ends  *)
(*    the parent is given.                                                 *)
(* Written from the header's text and the property statements, not from    *)
(* the control flow of options.c / redirect.c / process.posix.c.           *)
(***************************************************************************)
EXTENDS Integers, Sequences, FiniteSets, TLC, Json

T_DEFAULT == 0  T_PIPE == 1  T_PARENT == 2  T_DISCARD == 3  T_STDOUT == 4  T_HANDLE == 5  T_FILE == 6  T_PATH == 7
EINVAL == -22
STREAMS == <<"in", "out", "err">>

\* a redirect as the caller writes it: type, handle (0 = unset), file (0 = unset, else the descriptor behind the FILE), path ("" = unset)
Unset(r) == r.t = T_DEFAULT /\ r.h = 0 /\ r.f = 0 /\ r.p = ""

(* ---- per-stream rules (s in 1..3 for in/out/err; sh = the shorthands) ---- *)
UsesFile(s, sh) == s # 1 /\ sh.file # 0
UsesPath(s, sh) == s # 1 /\ sh.path # ""

RejectStream(r, s, sh) ==
  \/ UsesFile(s, sh) /\ (~Unset(r) \/ sh.parent \/ sh.discard \/ sh.path # "")
  \/ UsesPath(s, sh) /\ (~Unset(r) \/ sh.parent \/ sh.discard \/ sh.file # 0)
  \/ r.h # 0 /\ (r.t \notin {T_DEFAULT, T_HANDLE} \/ r.f # 0 \/ r.p # "")
  \/ r.t = T_HANDLE /\ r.h = 0
  \/ r.f # 0 /\ (r.t \notin {T_DEFAULT, T_FILE} \/ r.h # 0 \/ r.p # "")
  \/ r.t = T_FILE /\ r.f = 0
  \/ r.p # "" /\ (r.t \notin {T_DEFAULT, T_PATH} \/ r.h # 0 \/ r.f # 0)
  \/ r.t = T_PATH /\ r.p = ""
  \/ r.t = T_STDOUT /\ s # 3
  \/ Unset(r) /\ ~UsesFile(s, sh) /\ ~UsesPath(s, sh) /\ sh.parent /\ sh.discard

\* effective redirect of a stream that is not rejected: [t, h, f, p]
Effective(r, s, sh) ==
  IF UsesFile(s, sh) THEN [t |-> T_FILE, h |-> 0, f |-> sh.file, p |-> ""]
  ELSE IF UsesPath(s, sh) THEN [t |-> T_PATH, h |-> 0, f |-> 0, p |-> sh.path]
  ELSE IF r.h # 0 THEN [r EXCEPT !.t = T_HANDLE]
  ELSE IF r.f # 0 THEN [r EXCEPT !.t = T_FILE]
  ELSE IF r.p # "" THEN [r EXCEPT !.t = T_PATH]
  ELSE IF r.t # T_DEFAULT THEN r
  ELSE IF sh.parent THEN [r EXCEPT !.t = T_PARENT]
  ELSE IF sh.discard THEN [r EXCEPT !.t = T_DISCARD]
  ELSE [r EXCEPT !.t = IF s = 3 THEN T_PARENT ELSE T_PIPE]

\* o: [rd : <<rin, rout, rerr>>, sh : [parent, discard, file, path], input (-1 none, -2 size without data, n), fork, argv (TRUE = given)]
Verdict(o) ==
  LET rej == \E s \in 1..3 : RejectStream(o.rd[s], s, o.sh)
      eff == [s \in 1..3 |-> Effective(o.rd[s], s, o.sh)]
      late == \E s \in 1..3 : o.rd[s].t > T_PATH \/ o.rd[s].t < 0
      inputBad == \/ o.input = -2
                  \/ o.input >= 0 /\ eff[1].t # T_PIPE
      forkBad == (o.fork /\ o.argv) \/ (~o.fork /\ ~o.argv)
      \* both shorthands set although no stream is left to default: the header neither allows nor forbids it
      unspec == o.sh.parent /\ o.sh.discard /\ ~rej
  IN IF unspec THEN [v |-> "unspecified", eff |-> eff]
     ELSE IF rej THEN [v |-> "reject", eff |-> eff]
     ELSE IF late THEN [v |-> "late", eff |-> eff]
     ELSE IF inputBad \/ forkBad THEN [v |-> "reject", eff |-> eff]
     ELSE [v |-> "accept", eff |-> eff]

(* ---- wiring of an accepted request ---- *)
\* k: the parent's descriptor table as far as the contract cares: std[s] = TRUE iff the parent's descriptor s-1 is open
\* (on its own terminal-like object named "t<s-1>"); user handles / files are descriptors >= 3 on objects named by Name(fd).
\* (a user handle that is itself descriptor 0, 1 or 2 refers to the parent's own standard stream object)
Name(fd) == IF fd <= 2 THEN "t" \o ToString(fd) ELSE "o" \o ToString(fd)
\* 0 means "no FILE given", so a FILE stream whose descriptor IS 0 (a program that closed its stdin and opened a file, or
\* simply passes `stdin`) is written F0; FdOf gives the descriptor behind the field
F0 == 1000
FdOf(f) == IF f = F0 THEN 0 ELSE f

Acc(s) == IF s = 1 THEN "r" ELSE "w"

\* token of the object the child's descriptor s-1 must refer to; pipes get ordinals in order of first appearance
PipeOrd(eff, s) == Cardinality({q \in 1..s : eff[q].t = T_PIPE})
\* (a trailing "!" marks a pipe whose other end the parent does not hold: only stdin after start-up input)
Tok(eff, k, s) ==
  LET e == eff[s] IN
  CASE e.t = T_PIPE -> "p" \o Acc(s) \o "#" \o ToString(PipeOrd(eff, s)) \o (IF s = 1 /\ k.hasInput THEN "!" ELSE "")
    [] e.t = T_PARENT -> IF k.std[s] THEN "u:t" \o ToString(s - 1) ELSE "n" \o Acc(s)
    [] e.t = T_DISCARD -> "n" \o Acc(s)
    [] e.t = T_HANDLE -> IF e.h <= 2 /\ ~k.std[e.h + 1] THEN "?" ELSE "u:" \o Name(e.h)
    [] e.t = T_FILE -> IF FdOf(e.f) <= 2 /\ ~k.std[FdOf(e.f) + 1] THEN "?" ELSE "u:" \o Name(FdOf(e.f))
    [] e.t = T_PATH -> "f" \o Acc(s) \o ":" \o e.p
    [] OTHER -> "?"

ChildWiring(eff, k) ==
  LET t1 == Tok(eff, k, 1)
      t2 == Tok(eff, k, 2)
      t3 == IF eff[3].t = T_STDOUT THEN t2 ELSE Tok(eff, k, 3)
  IN <<t1, t2, t3>>

NPipes(eff) == Cardinality({q \in 1..3 : eff[q].t = T_PIPE})
\* besides 0,1,2 the child holds exactly the write end of the exit pipe
ChildExtra(eff) == << "pw#" \o ToString(NPipes(eff) + 1) >>
\* the parent is given one end per piped stream and the read end of the exit pipe (listed by ordinal)
ParentEnds(eff, hasInput) ==
  LET ends == [q \in 1..3 |-> IF eff[q].t = T_PIPE /\ ~(q = 1 /\ hasInput)
                               THEN << "p" \o (IF q = 1 THEN "w" ELSE "r") \o "#" \o ToString(PipeOrd(eff, q)) >> ELSE <<>>]
  IN ends[1] \o ends[2] \o ends[3] \o << "pr#" \o ToString(NPipes(eff) + 1) >>

=============================================================================
