------------------------------ MODULE MC_Poll ------------------------------
(* Bounded instance for the poll / wait family (C08 C09): two handles and a    *)
(* process-less source in every order, deadlines none / future / expired,      *)
(* timeouts below, equal to and above the remaining deadline, child activity   *)
(* at every point relative to the poll.                                        *)
EXTENDS Core

CONSTANTS DlOpts, Timeouts, Masks, MaxSrc, MaxPolls

NoStop == <<<<NOOP, 0>>, <<NOOP, 0>>, <<NOOP, 0>>>>
KillNow == <<<<KILL, INF>>, <<NOOP, 0>>, <<NOOP, 0>>>>
StartOpts == {[dl |-> d, stop |-> KillNow, nb |-> TRUE, rin |-> 0, rout |-> 0, rerr |-> re, input |-> -1,
               term |-> 0, self |-> TRUE, prog |-> "/bin/c"] : d \in DlOpts, re \in {0, R_PIPE}}
             \cup {[dl |-> 0, stop |-> KillNow, nb |-> TRUE, rin |-> 0, rout |-> 0, rerr |-> 0, input |-> -1,
                    term |-> 0, self |-> TRUE, prog |-> "/bin/c", fork |-> TRUE]}
\* (18 = output + the deadline bit: the deadline bit is a legal interest and asks for nothing - in particular not for the exit event)
Srcs1 == {<<<<h, m>>>> : h \in {0, 1, 2}, m \in Masks \cup {EV_OUT + EV_DEADLINE}}
Srcs2 == {<<<<h, m>>, <<g, k>>>> : h \in {0, 1, 2}, g \in {0, 1, 2}, m \in Masks, k \in {EV_OUT + EV_EXIT}}
Srcs3 == {<<<<h, EV_OUT + EV_EXIT>>, <<g, EV_OUT + EV_EXIT>>, <<f, EV_OUT + EV_EXIT>>>> : h \in {0, 1, 2}, g \in {0, 1, 2}, f \in {0, 1, 2}}
Srcs == Srcs1 \cup (IF MaxSrc >= 2 THEN Srcs2 ELSE {}) \cup (IF MaxSrc >= 3 THEN Srcs3 ELSE {})

npolls == Cardinality({k \in 1..Len(hist) : hist[k].e = "call" /\ hist[k].fn = "poll"})

Next ==
  \/ New(1) \/ (life[1] = "run" /\ now = 0 /\ New(2))     \* canonical set-up order (symmetry)
  \/ \E o \in StartOpts : life[1] = "ns" /\ Start(1, o)
  \/ \E o \in StartOpts : life[2] = "ns" /\ ~IsFork(o) /\ (MaxSrc >= 3 \/ o.rerr = 0) /\ Start(2, o)   \* (quick tier: the second child has no stderr pipe)
  \/ npolls < MaxPolls /\ \E s \in Srcs, t \in Timeouts \cup {INF} : Poll(s, t)
  \/ \E h \in {1, 2}, t \in {0, 3, DEADLINE} : life[h] = "run" /\ Wait(h, t)   \* (3: a finite timeout beyond the deadline - the deadline does not cut it short)
  \/ \E h \in {1, 2} : life[h] = "run" /\ pend[h].o /\ Close(h, S_OUT)
  \/ \E h \in {1, 2} : life[h] = "run" /\ buf[h].o # <<>> /\ Read(h, S_OUT, 2, 0)
  \/ Resume
  \/ Tick
  \/ \E h \in {1, 2} : ChildExit(h, 3)
  \/ \E h \in {1, 2} : ChildOut(h, 1)
  \/ \E h \in {1, 2} : ChildClose(h, 1)
  \/ ChildCloseX(1)     \* the exit event is "the exit handle hung up": reported although the child lives on; a wait then lasts until it ends
  \/ Interrupt

Spec == Init /\ [][Next]_vars
Export == ExportRet

\* C08 on the model: a poll that returns took no longer than min(timeout, earliest deadline - call time)
PollBounded ==
  LET r == LastRet IN
  (r.e = "ret" /\ "rev" \in DOMAIN r) =>
    LET c == CHOOSE k \in 1..Len(hist) : hist[k].e = "call" /\ \A j \in (k + 1)..(Len(hist) - 1) : hist[j].e = "env"
        ticks == Cardinality({j \in (c + 1)..(Len(hist) - 1) : hist[j].e = "env" /\ hist[j].k = "adv"})
    IN hist[c].to = INF \/ ticks <= hist[c].to
=============================================================================
