----------------------------- MODULE MC_Launch -----------------------------
(* TLC as enumerator and oracle for reproc_start (C10 C11 C13): every option   *)
(* record of the chosen family is judged by Launch!Verdict and, if accepted,    *)
(* its wiring computed; each becomes one script  new ; start  with the          *)
(* prediction attached.                                                         *)
EXTENDS Launch

CONSTANTS Family,     \* "options" | "wiring"
          StdMode     \* "open": the parent's 0,1,2 are open; "all": every open/closed pattern of them

StdSets == IF StdMode = "open" THEN {<<TRUE, TRUE, TRUE>>} ELSE [1..3 -> BOOLEAN]

VARIABLES phase, o, k
vars == <<phase, o, k>>

HFD == 5   \* a user-supplied handle lives on descriptor 5
FFD == 6   \* a user-supplied FILE lives on descriptor 6
DEADFD == 29   \* a descriptor number that is NOT open (and that the library's own descriptors never reach under the limit of 32)
HFDH == 1050   \* ... or, in a crowded caller, on descriptor 1050
PATHS == "/d/f"
Extras == <<<<HFD, 0, Name(HFD)>>, <<FFD, 0, Name(FFD)>>, <<9, 0, Name(9)>>, <<11, 1, Name(11)>>, <<30, 0, Name(30)>>, <<31, 0, Name(31)>>,
           <<12, 0, "hp">>>>   \* "hp": the read end of a pipe whose writer is gone (open and inheritable like the others, but hung up)   \* 31 = the highest descriptor the limit (32) permits

R(t, h, f, p) == [t |-> t, h |-> h, f |-> f, p |-> p]
U == R(0, 0, 0, "")
AllRedirects == {R(t, h, f, p) : t \in 0..8, h \in {0, HFD}, f \in {0, FFD}, p \in {"", PATHS}}
Shorthands == {[parent |-> a, discard |-> b, file |-> c, path |-> d] : a \in BOOLEAN, b \in BOOLEAN, c \in {0, FFD}, d \in {"", PATHS}}
NoSh == [parent |-> FALSE, discard |-> FALSE, file |-> 0, path |-> ""]
Contexts == {<<U, U, U>>, <<R(T_PIPE, 0, 0, ""), R(T_DISCARD, 0, 0, ""), R(T_PIPE, 0, 0, "")>>}

Opt(rd, sh, input, fork, argv) == [rd |-> rd, sh |-> sh, input |-> input, fork |-> fork, argv |-> argv]

\* C13 (a): one stream ranges over every redirect value, times every shorthand combination, in two contexts;
\*          plus the input forms and the fork / argv forms
OptionPoints ==
  {Opt([c EXCEPT ![s] = r], sh, -1, FALSE, TRUE) : c \in Contexts, s \in 1..3, r \in AllRedirects, sh \in Shorthands}
  \cup {Opt(<<ri, U, U>>, sh, inp, FALSE, TRUE) :
          ri \in {U, R(T_PIPE, 0, 0, ""), R(T_DISCARD, 0, 0, ""), R(T_PARENT, 0, 0, ""), R(0, HFD, 0, ""), R(0, 0, 0, PATHS)},
          sh \in {NoSh, [NoSh EXCEPT !.parent = TRUE], [NoSh EXCEPT !.discard = TRUE]}, inp \in {-1, -2, 0, 2}}
  \cup {Opt(<<U, U, U>>, NoSh, -1, f, a) : f \in BOOLEAN, a \in BOOLEAN}
  \* out-of-range types on the negative side (an enum value cast from -1, from the smallest int)
  \cup {Opt([<<U, U, U>> EXCEPT ![s] = R(t, 0, 0, "")], NoSh, -1, FALSE, TRUE) : s \in 1..3, t \in {-1, -2147483647}}
  \cup {Opt([<<U, U, U>> EXCEPT ![s] = R(-1, 0, 0, PATHS)], NoSh, -1, FALSE, TRUE) : s \in 2..3}
  \* a FILE stream is "given" whatever its descriptor number: also when it sits on descriptor 0
  \cup {Opt([<<U, U, U>> EXCEPT ![s] = R(t, 0, F0, "")], NoSh, -1, FALSE, TRUE) : s \in 1..3, t \in {T_DEFAULT, T_FILE}}
  \cup {Opt(<<U, U, U>>, [NoSh EXCEPT !.file = F0], -1, FALSE, TRUE)}

\* C10: every valid combination of explicit types, plus the shorthands and the defaults
ValidIn == {R(T_PIPE, 0, 0, ""), R(T_PARENT, 0, 0, ""), R(T_DISCARD, 0, 0, ""), R(T_HANDLE, HFD, 0, ""), R(T_FILE, 0, FFD, ""), R(T_PATH, 0, 0, PATHS), U}
ValidErr == ValidIn \cup {R(T_STDOUT, 0, 0, "")}
PIPE3 == R(T_PIPE, 0, 0, "")
WiringPoints ==
  {Opt(<<a, b, c>>, NoSh, -1, FALSE, TRUE) : a \in ValidIn, b \in ValidIn, c \in ValidErr}
  \cup {Opt(<<U, U, U>>, sh, -1, FALSE, TRUE) : sh \in {[NoSh EXCEPT !.parent = TRUE], [NoSh EXCEPT !.discard = TRUE],
                                                       [NoSh EXCEPT !.file = FFD], [NoSh EXCEPT !.path = PATHS]}}
  \cup {Opt(<<R(T_PIPE, 0, 0, ""), b, c>>, NoSh, 2, FALSE, TRUE) : b \in {U, R(T_PARENT, 0, 0, "")}, c \in {U, R(T_STDOUT, 0, 0, "")}}
  \* many inherited descriptors
  \cup {Opt(<<U, U, U>>, NoSh, -1, FALSE, TRUE) @@ [many |-> TRUE], Opt(<<PIPE3, PIPE3, PIPE3>>, NoSh, -1, FALSE, TRUE) @@ [many |-> TRUE]}
  \* a stream given by its member only (type left unset) next to a shorthand for the OTHER streams: the member wins for that stream
  \cup {Opt([<<U, U, U>> EXCEPT ![s] = r], sh, -1, FALSE, TRUE) : s \in 1..3, r \in {R(0, HFD, 0, ""), R(0, 0, FFD, ""), R(0, 0, 0, PATHS)},
          sh \in {[NoSh EXCEPT !.parent = TRUE], [NoSh EXCEPT !.discard = TRUE]}}
  \* a path that names a FIFO: opened in the stream's direction like any other path (read for stdin, write for the outputs)
  \cup {Opt([<<U, U, U>> EXCEPT ![s] = R(T_PATH, 0, 0, "/d/fifo")], NoSh, -1, FALSE, TRUE) : s \in 1..3}
  \* a handle / a FILE whose descriptor is not open (closed underneath a stale FILE object): an unusable target, for any stream
  \cup {Opt([<<U, U, U>> EXCEPT ![s] = r], NoSh, -1, FALSE, TRUE) : s \in 1..3, r \in {R(T_FILE, 0, DEADFD, ""), R(T_HANDLE, DEADFD, 0, ""), R(T_DEFAULT, 0, DEADFD, "")}}
  \* a caller whose descriptor table is full below 1040: every descriptor the library creates, and the handle the caller
  \* supplies, has a number beyond what a select-style descriptor set can hold
  \cup {Opt(<<PIPE3, PIPE3, PIPE3>>, NoSh, -1, FALSE, TRUE) @@ [many |-> TRUE, high |-> TRUE],
         Opt(<<U, R(T_HANDLE, HFDH, 0, ""), R(T_STDOUT, 0, 0, "")>>, NoSh, -1, FALSE, TRUE) @@ [many |-> TRUE, high |-> TRUE]}
  \* a FILE stream that sits on descriptor 0 (for stdin itself, for another stream, and as the shorthand)
  \cup {Opt(<<R(T_FILE, 0, F0, ""), U, U>>, NoSh, -1, FALSE, TRUE), Opt(<<R(T_DEFAULT, 0, F0, ""), U, U>>, NoSh, -1, FALSE, TRUE),
         Opt(<<U, R(T_FILE, 0, F0, ""), U>>, NoSh, -1, FALSE, TRUE), Opt(<<U, U, U>>, [NoSh EXCEPT !.file = F0], -1, FALSE, TRUE)}
  \* user-supplied handles / FILEs that are themselves the parent's descriptors 1 or 2 (crossed over, shared, or next to pipes)
  \cup {Opt(<<a, b, c>>, NoSh, -1, FALSE, TRUE) :
          a \in {U, R(T_DISCARD, 0, 0, "")},
          b \in {U, R(T_HANDLE, 2, 0, ""), R(T_FILE, 0, 2, ""), R(T_HANDLE, 1, 0, ""), R(T_PARENT, 0, 0, "")},
          c \in {U, R(T_PIPE, 0, 0, ""), R(T_HANDLE, 1, 0, ""), R(T_FILE, 0, 1, ""), R(T_HANDLE, 2, 0, ""), R(T_STDOUT, 0, 0, "")}}

\* nonblocking mode (C17) is a property of the parent's ends of the stream pipes - all of them, whatever else is redirected
\* or defaulted by a shorthand - and never of the exit handle or of anything the child gets
NbPoints ==
  {Opt(<<a, b, c>>, sh, -1, FALSE, TRUE) @@ [nb |-> TRUE] :
     a \in {U, R(T_PIPE, 0, 0, ""), R(T_DISCARD, 0, 0, "")}, b \in {U, R(T_PIPE, 0, 0, ""), R(T_PARENT, 0, 0, "")}, c \in {U, R(T_PIPE, 0, 0, ""), R(T_STDOUT, 0, 0, "")},
     sh \in {NoSh, [NoSh EXCEPT !.parent = TRUE], [NoSh EXCEPT !.discard = TRUE], [NoSh EXCEPT !.file = FFD], [NoSh EXCEPT !.path = PATHS]}}

(* ---- family "env" (C03 C12): argv, environment, working directory, program resolution, signal state ---- *)
EnvBase == [argvx |-> <<>>, envb |-> 0, envx |-> <<"none">>, penv |-> <<"P=1">>, wd |-> "", prog |-> "/bin/c",
            cwd |-> "/w", cwdlen |-> 0, mask |-> <<>>, disp |-> <<>>, limit |-> 32]
\* (%XX = a byte that is not printable ASCII, decoded by the harness: tab, newline, DEL, lone continuation / invalid UTF-8, valid UTF-8)
ArgvXs == {<<>>, <<"a b">>, <<"%*70000*z", "t">>, <<"", "q\"x", "b\\s", "k=v", " ", "-x">>, <<"a", "a", "a">>,
           <<"%FF%FE", "%C3(", "%E2%82%AC", "%09", "a%0Ab", "%7F", "%80x%25">>}
\* ("%*N*c" = N copies of c, expanded by the harness: an entry of 32 KiB and more is an entry like any other)
EnvXs == {<<"none">>, <<>>, <<"A=1">>, <<"B=2", "A=3", "=x", "C", "A=1">>, <<"U=%FF%80", "%C3%A9=%0A">>, <<"E=%*32768*y", "F=1">>}
PEnvs == {<<>>, <<"P=1">>, <<"B=%*40000*x", "P=1">>, <<"P=1", "Q=", "A=0">>, <<"P=%FE%09">>, <<"NOEQUALS", "=LEADING", "P=1", "X==">>}   \* (entries a shell would not create are passed on too)
Progs == {"/bin/c", "./c", "sub/c", "c", "sub//c"}
Cwds == {"/w", "/", "/x"}    \* (under /x the relative programs do not exist: the start fails, whatever exists under the CHILD's directory)
CwdLens == {0, 1, 4093, 4094, 4095, 4096, 4097, 8189, 8190, 8191, 8192, 8193, 4000, 5000}
\* (4 7 8 11: the signals a fault raises synchronously; the last: what a worker thread that "blocks everything" has blocked)
Masks == {<<>>, <<15>>, <<13, 17>>, <<1, 2, 3, 13, 14, 15, 17, 20, 34, 64>>, <<4, 7, 8, 11>>,
          <<1, 2, 3, 4, 5, 6, 7, 8, 10, 11, 12, 13, 14, 15, 16, 17, 18, 20, 21, 22, 23, 24, 25, 26, 27, 28, 29, 30, 31, 34, 35, 64>>}
Disps == {<<>>, <<<<15, 1>>>>, <<<<2, 2>>, <<13, 1>>, <<17, 2>>>>}
EnvPoints ==
  LET vary == {[EnvBase EXCEPT !.argvx = a] : a \in ArgvXs}
         \cup {[EnvBase EXCEPT !.envb = b, !.envx = x, !.penv = p] : b \in {0, 1}, x \in EnvXs, p \in PEnvs}
         \cup ({[EnvBase EXCEPT !.wd = w, !.prog = p, !.cwd = c] : w \in {"", "/d"}, p \in Progs, c \in Cwds}
               \ {[EnvBase EXCEPT !.wd = w, !.prog = "./c", !.cwd = "/x"] : w \in {"", "/d"}})   \* (the simulated file system knows ".../\./c" under any directory, for the synthetic deep ones)
         \cup {[EnvBase EXCEPT !.wd = "/d", !.prog = p, !.cwdlen = l] : p \in {"./c", "/bin/c"}, l \in CwdLens}
         \cup {[EnvBase EXCEPT !.mask = ms, !.disp = d, !.wd = w] : ms \in Masks, d \in Disps, w \in {"", "/d"}}
         \cup {[EnvBase EXCEPT !.disp = d, !.cwd = c, !.prog = "sub/c"] : d \in {<<<<17, 1>>>>, <<<<13, 2>>, <<17, 1>>>>}, c \in {"/w", "/x"}}   \* SIGCHLD ignored; the start succeeds / the program is missing
         \cup {[EnvBase EXCEPT !.limit = -1, !.mask = ms] : ms \in {<<>>, <<15>>}}   \* no descriptor limit: start must refuse cleanly
         \* a working directory that cannot be entered (missing; not a directory): the start fails with the system's error,
         \* whatever the program, and nothing runs anywhere else instead
         \cup {[EnvBase EXCEPT !.wd = w, !.prog = p] : w \in {"/nowhere", "/bin/c"}, p \in {"/bin/c", "./c"}}
  IN {Opt(<<U, U, U>>, NoSh, -1, FALSE, TRUE) @@ [x |-> v] : v \in vary}
     \* ... in fork mode too: the caller's clone that cannot enter the directory reports that and is gone
     \cup {Opt(<<U, U, U>>, NoSh, -1, TRUE, FALSE) @@ [x |-> [EnvBase EXCEPT !.wd = w]] : w \in {"/nowhere", "/bin/c"}}
     \* a relative redirect path together with a working directory for the child, from a directory too deep to chdir back into:
     \* the file is the one relative to the CALLER's directory, and the caller is still there afterwards
     \cup {Opt(<<U, U, U>>, [NoSh EXCEPT !.path = "rel.out"], -1, FALSE, TRUE) @@ [x |-> [EnvBase EXCEPT !.wd = "/d", !.cwdlen = l]] : l \in {0, 5000}}
     \* start-up input (the one path on which start itself writes to a pipe) with handlers for SIGPIPE and others installed
     \cup {Opt(<<U, U, U>>, NoSh, 3, FALSE, TRUE) @@ [x |-> [EnvBase EXCEPT !.disp = d]] : d \in {<<<<13, 2>>>>, <<<<2, 2>>, <<13, 1>>>>, <<>>}}

\* scenarios for the fault sweep (C04 C05 C06 C12): every redirect kind at some stream, the shorthands, start-up input,
\* working directory + relative program, extra environment, a non-trivial signal state
PIPE_ == R(T_PIPE, 0, 0, "")
FaultScenPoints ==
  LET w == {<<U, U, U>>, <<PIPE_, PIPE_, PIPE_>>, <<R(T_PARENT, 0, 0, ""), R(T_DISCARD, 0, 0, ""), R(T_STDOUT, 0, 0, "")>>,
            <<R(T_HANDLE, HFD, 0, ""), R(T_FILE, 0, FFD, ""), R(T_PATH, 0, 0, PATHS)>>,
            <<R(T_PATH, 0, 0, PATHS), PIPE_, R(T_STDOUT, 0, 0, "")>>, <<R(T_DISCARD, 0, 0, ""), R(T_PARENT, 0, 0, ""), PIPE_>>}
      base == Opt(<<U, U, U>>, NoSh, -1, FALSE, TRUE)
  IN {Opt(rd, NoSh, -1, FALSE, TRUE) @@ [x |-> EnvBase] : rd \in w}
     \cup {Opt(<<U, U, U>>, sh, -1, FALSE, TRUE) @@ [x |-> EnvBase] : sh \in {[NoSh EXCEPT !.parent = TRUE], [NoSh EXCEPT !.path = PATHS]}}
     \cup {Opt(<<U, U, U>>, NoSh, 3, FALSE, TRUE) @@ [x |-> EnvBase]}
     \cup {base @@ [x |-> [EnvBase EXCEPT !.wd = "/d", !.prog = "./c", !.envx = <<"A=1", "B=2">>, !.argvx = <<"a">>]],
           base @@ [x |-> [EnvBase EXCEPT !.envb = 1, !.envx = <<"A=1">>, !.mask = <<13, 15, 17>>, !.disp = <<<<2, 2>>, <<13, 1>>>>]]}

\* family "env2": two starts (two handles) with a change the CALLER makes to its own process in between - working directory,
\* environment, descriptor limit plus a new high descriptor; the second start must see the new state only
Env2Points ==
  {Opt(<<U, U, U>>, NoSh, -1, FALSE, TRUE) @@ [x |-> [EnvBase EXCEPT !.wd = "/d", !.prog = p, !.cwd = c1, !.penv = e1], x2 |-> [cwd |-> c2, penv |-> e2, limit |-> l2, mask |-> sg[1], disp |-> sg[2], cl |-> sg[3]]] :
     p \in {"./c", "sub/c", "/bin/c"}, c1 \in {"/w", "/"}, c2 \in {"/w", "/"}, e1 \in {<<"P=1">>, <<>>}, e2 \in {<<"P=2", "Q=3">>, <<>>}, l2 \in {32, 64},
     sg \in {<< <<>>, <<>>, FALSE >>, << <<12>>, <<<<10, 1>>, <<15, 2>>>>, TRUE >>}}   \* ... its signal mask and dispositions, and whether it closes its stderr

\* family "tables" (C13 b): the per-stream verdict for EVERY redirect value x shorthand combination x stream, exported as a table;
\* the harness composes it over the full product of option records ("reject iff some stream rejects", input and fork rules)
TablePoints == {[s |-> s, r |-> r, sh |-> sh] : s \in 1..3, r \in AllRedirects, sh \in Shorthands}
B(x) == IF x THEN 1 ELSE 0
TableRow(pt) ==
  LET r == pt.r  sh == pt.sh IN
  <<"T", pt.s, r.t, B(r.h # 0), B(r.f # 0), B(r.p # ""), B(sh.parent), B(sh.discard), B(sh.file # 0), B(sh.path # ""),
    IF RejectStream(r, pt.s, sh) THEN 1 ELSE IF r.t > T_PATH THEN 2 ELSE 0, Effective(r, pt.s, sh).t>>

Points == IF Family = "tables" THEN TablePoints ELSE IF Family = "options" THEN OptionPoints ELSE IF Family = "wiring" THEN WiringPoints \cup NbPoints
          ELSE IF Family = "faultscen" THEN FaultScenPoints ELSE IF Family = "env2" THEN Env2Points ELSE EnvPoints
X == IF "x" \in DOMAIN o THEN o.x ELSE EnvBase

\* C03: program resolution.  A path is relative if it does not start with "/" but contains one.
IsRel(p) == p \in {"./c", "sub/c", "sub//c"}
Joined(c, p) == IF c = "/" THEN "/" \o p ELSE c \o "/" \o p
ExpProg == IF X.wd # "" /\ IsRel(X.prog) THEN Joined(X.cwd, X.prog) ELSE X.prog
\* length of the program string when the parent's working directory has the synthetic length cwdlen
ExpProgLen == IF X.wd # "" /\ IsRel(X.prog) THEN (IF X.cwdlen = 1 THEN 1 ELSE X.cwdlen + 1) + Len(X.prog) ELSE Len(X.prog)
ExpEnv == (IF X.envb = 0 THEN X.penv ELSE <<>>) \o (IF X.envx = <<"none">> THEN <<>> ELSE X.envx)
ENAMETOOLONG == -36
ENOENT == -2
EMFILE == -24

\* what is launched does not depend on which of the caller's standard descriptors are open: the points with a working directory
\* for the child are also taken by a caller without stdin, and without stdin and stdout
StdFor(pt) == IF Family = "env" /\ "x" \in DOMAIN pt /\ pt.x.wd = "/d" /\ pt.x.cwdlen = 0 /\ pt.x.mask = <<>> /\ pt.x.disp = <<>> /\ pt.x.cwd = "/w"
                THEN StdSets \cup {<<FALSE, TRUE, TRUE>>, <<FALSE, FALSE, TRUE>>}
              \* ... and the fault sweep's scenarios that open files of their own also run in a caller without stdin (what the library
              \* opens then lands on descriptor 0 and is moved up: one more step that can fail)
              ELSE IF Family = "faultscen" /\ (\E q \in 1..3 : pt.rd[q].t \in {T_DISCARD, T_PATH}) THEN StdSets \cup {<<FALSE, TRUE, TRUE>>}
              ELSE StdSets
Init == phase = "pick" /\ o \in Points /\ k \in {[std |-> s, hasInput |-> FALSE] : s \in StdFor(o)}
\* a user handle / FILE that names one of the parent's descriptors 1, 2 while that descriptor is closed: an unusable target
DeadTarget(eff) == \E s \in 1..3 : (eff[s].t = T_HANDLE /\ eff[s].h \in {1, 2} /\ ~k.std[eff[s].h + 1])
                                     \/ (eff[s].t = T_FILE /\ FdOf(eff[s].f) \in {0, 1, 2} /\ ~k.std[FdOf(eff[s].f) + 1])
                                     \/ (eff[s].t = T_HANDLE /\ eff[s].h = DEADFD) \/ (eff[s].t = T_FILE /\ FdOf(eff[s].f) = DEADFD)
EBADF == -9

RJ(r) == <<r.t, r.h, r.f, r.p>>
\* "many": the caller holds a couple of hundred further inheritable descriptors (C11: "any number") under a limit of 512
Many == "many" \in DOMAIN o
High == "high" \in DOMAIN o
HighFill == SelectSeq([i \in 1..1037 |-> i + 2], LAMBDA f : \A j \in 1..Len(Extras) : Extras[j][1] # f)
ExtraList == IF High THEN Extras \o [i \in 1..Len(HighFill) |-> <<HighFill[i], 0, "m">>] \o <<<<HFDH, 0, Name(HFDH)>>>>
             ELSE IF Many THEN Extras \o [i \in 1..230 |-> <<100 + i, 0, "m">>] ELSE Extras
CfgRec == [e |-> "cfg", cap |-> 8, limit |-> IF Family \in {"env", "faultscen"} THEN X.limit ELSE IF High THEN 1100 ELSE IF Many THEN 512 ELSE 32,
           fds |-> [s \in 1..3 |-> IF k.std[s] THEN 1 ELSE 0], extra |-> ExtraList]
          @@ (IF Family \in {"env", "faultscen", "env2"}
                THEN [env |-> X.penv, cwd |-> X.cwd, cwdlen |-> X.cwdlen, mask |-> X.mask, disp |-> X.disp,
                      fs |-> <<<<"/w/./c", 3>>, <<"/w/sub/c", 3>>, <<"/w/sub//c", 3>>, <<"/./c", 3>>, <<"/sub/c", 3>>, <<"/sub//c", 3>>,
                               <<"c", 3>>, <<"/d/./c", 3>>, <<"/d/sub/c", 3>>, <<"/d/sub//c", 3>>, <<"/./c", 19>>>>]
                ELSE <<>>)
StartRec == [e |-> "call", fn |-> "start", h |-> 1, term |-> 2, argv |-> IF o.argv THEN <<X.prog>> \o X.argvx ELSE <<>>, noargv |-> IF o.argv THEN 0 ELSE 1,
             o |-> (IF Family \in {"env", "faultscen", "env2"} THEN [envb |-> X.envb] @@ (IF X.envx = <<"none">> THEN <<>> ELSE [envx |-> X.envx])
                                           @@ (IF X.wd = "" THEN <<>> ELSE [wd |-> X.wd]) ELSE <<>>) @@
                   [rin |-> RJ(o.rd[1]), rout |-> RJ(o.rd[2]), rerr |-> RJ(o.rd[3]),
                    parent |-> IF o.sh.parent THEN 1 ELSE 0, discard |-> IF o.sh.discard THEN 1 ELSE 0,
                    file |-> o.sh.file, path |-> o.sh.path, input |-> o.input, fork |-> IF o.fork THEN 1 ELSE 0,
                    nb |-> IF "nb" \in DOMAIN o /\ o.nb THEN 1 ELSE 0]]
BaseFds == Cardinality({s \in 1..3 : k.std[s]}) + Len(ExtraList)

Expected ==
  LET v == Verdict(o)
      kk == [k EXCEPT !.hasInput = o.input >= 0]
      common == [e |-> "ret", mon |-> <<>>, nalloc |-> 1]
  IN CASE v.v = "reject" -> common @@ [r |-> EINVAL, created |-> 0, nfd |-> BaseFds, left |-> 0]
       [] v.v = "late" -> common @@ [r |-> EINVAL, nfd |-> BaseFds, left |-> 0]
       [] v.v = "unspecified" -> [e |-> "ret", mon |-> <<>>]
       [] v.v = "accept" /\ o.fork /\ Family = "env" /\ X.wd \in {"/nowhere", "/bin/c"} ->
            common @@ [r |-> IF X.wd = "/nowhere" THEN ENOENT ELSE -20, nfd |-> BaseFds, left |-> 0, pmask |-> X.mask, pdisp |-> X.disp, pcwd |-> X.cwd]
       [] v.v = "accept" /\ o.fork -> [e |-> "ret", mon |-> <<>>, r |-> 1]
       [] v.v = "accept" /\ DeadTarget(v.eff) -> common @@ [r |-> EBADF, nfd |-> BaseFds, left |-> 0]
       [] Family = "env" /\ X.limit = -1 ->
            \* an unlimited descriptor table cannot be swept by the child: the documented refusal is "too many open files"
            common @@ [r |-> EMFILE, nfd |-> BaseFds, left |-> 0, pmask |-> X.mask, pdisp |-> X.disp]
       [] Family = "env" /\ X.cwdlen > 0 /\ ExpProgLen >= 4096 ->
            \* beyond the path-length limit the only requirement is a clean failure
            common @@ [r |-> ENAMETOOLONG, nfd |-> BaseFds, left |-> 0, pmask |-> X.mask, pdisp |-> X.disp]
       [] Family = "faultscen" ->
            common @@ [r |-> 1, cw |-> ChildWiring(v.eff, kk), cx |-> ChildExtra(v.eff), pp |-> ParentEnds(v.eff, kk.hasInput),
                       cnb |-> 0, cexec |-> 1, cmask |-> <<>>, cdisp |-> <<>>, pmask |-> X.mask, pdisp |-> X.disp, pcwd |-> X.cwd,
                       cargv |-> <<X.prog>> \o X.argvx, cenv |-> ExpEnv, cprog |-> ExpProg, ccwd |-> IF X.wd = "" THEN X.cwd ELSE X.wd]
       [] Family = "env" /\ X.wd \in {"/nowhere", "/bin/c"} ->
            common @@ [r |-> IF X.wd = "/nowhere" THEN ENOENT ELSE -20, nfd |-> BaseFds, left |-> 0, pmask |-> X.mask, pdisp |-> X.disp, pcwd |-> X.cwd]
       [] Family = "env" /\ X.cwd = "/x" /\ IsRel(X.prog) ->
            \* the program named relative to the PARENT's directory does not exist (although one of that name exists elsewhere)
            \* (a caller that ignores SIGCHLD has no zombies to collect: the operating system's answer to the library's wait - "no child" -
            \* is what such a caller is told; its dispositions are what they were, on this path too)
            common @@ [r |-> IF \E i \in 1..Len(X.disp) : X.disp[i] = <<17, 1>> THEN -10 ELSE ENOENT,
                       nfd |-> BaseFds, left |-> 0, pmask |-> X.mask, pdisp |-> X.disp, pcwd |-> X.cwd]
       [] Family \in {"env", "env2"} ->
            common @@ [r |-> 1, left |-> 0, cexec |-> 1, cargv |-> <<X.prog>> \o X.argvx, cenv |-> ExpEnv,
                       pmask |-> X.mask, pdisp |-> X.disp, penv |-> X.penv, cmask |-> <<>>, cdisp |-> <<>>]
                   @@ (IF X.cwdlen > 0 /\ X.wd # "" /\ IsRel(X.prog) THEN [cprogl |-> <<ExpProgLen, 1>>, pcwd |-> X.cwd]
                       ELSE IF X.cwdlen > 0 THEN [cprog |-> X.prog, pcwd |-> X.cwd]
                       ELSE [cprog |-> ExpProg, ccwd |-> IF X.wd = "" THEN X.cwd ELSE X.wd, pcwd |-> X.cwd])
       [] v.v = "accept" -> common @@ [r |-> 1, cw |-> ChildWiring(v.eff, kk), cx |-> ChildExtra(v.eff),
                                      pp |-> ParentEnds(v.eff, kk.hasInput), cnb |-> 0, cexec |-> 1,
                                      pnb |-> LET pe == ParentEnds(v.eff, kk.hasInput) IN
                                              [q \in 1..Len(pe) |-> IF q < Len(pe) /\ "nb" \in DOMAIN o /\ o.nb THEN 1 ELSE 0],
                                      nfd |-> BaseFds + Len(ParentEnds(v.eff, kk.hasInput)), left |-> 0]

\* second half of an env2 script: the caller changes its own process, then starts a second child with the same options
Joined2(c, p) == IF c = "/" THEN "/" \o p ELSE c \o "/" \o p
Exp2 ==
  LET v == Verdict(o)
      x2 == o.x2
      highs == IF x2.limit = 64 THEN <<50, 63>> ELSE <<>>
  IN [e |-> "ret", mon |-> <<>>, r |-> 1, left |-> 0, cexec |-> 1,
      \* (the second child's streams are decided by the caller's descriptors as they are NOW: stderr closed -> the null device)
      cw |-> ChildWiring(v.eff, [k EXCEPT !.hasInput = FALSE, !.std[3] = IF x2.cl THEN FALSE ELSE @]), cx |-> ChildExtra(v.eff),
      cprog |-> IF IsRel(X.prog) THEN Joined2(x2.cwd, X.prog) ELSE X.prog,
      cenv |-> x2.penv, pcwd |-> x2.cwd, ccwd |-> X.wd, cmask |-> <<>>, cdisp |-> <<>>, pmask |-> x2.mask, pdisp |-> x2.disp]
Script2 ==
  <<CfgRec, [e |-> "call", fn |-> "new", h |-> 1], [e |-> "ret", r |-> 1], StartRec, Expected,
    [e |-> "call", fn |-> "pchdir", h |-> 0, dir |-> o.x2.cwd], [e |-> "call", fn |-> "psetenv", h |-> 0, env |-> o.x2.penv],
    [e |-> "call", fn |-> "plimit", h |-> 0, limit |-> o.x2.limit, open |-> IF o.x2.limit = 64 THEN <<50, 63>> ELSE <<>>],
    [e |-> "call", fn |-> "psig", h |-> 0, mask |-> o.x2.mask, disp |-> o.x2.disp],
    [e |-> "call", fn |-> "pclose", h |-> 0, fds |-> IF o.x2.cl THEN <<2>> ELSE <<>>],
    [e |-> "call", fn |-> "new", h |-> 2], [e |-> "ret", r |-> 1],
    [StartRec EXCEPT !.h = 2], Exp2>>
\* "no side effect" of a request rejected up front includes the handle: it is still not started afterwards
AfterReject == IF Family = "options" /\ Verdict(o).v = "reject" THEN <<[e |-> "call", fn |-> "pid", h |-> 1], [e |-> "ret", r |-> EINVAL, mon |-> <<>>]>> ELSE <<>>
Script == IF Family = "env2" THEN Script2 ELSE <<CfgRec, [e |-> "call", fn |-> "new", h |-> 1], [e |-> "ret", r |-> 1], StartRec, Expected>> \o AfterReject

Next == phase = "pick" /\ phase' = "done" /\ UNCHANGED <<o, k>>
        /\ IF Family = "tables" THEN PrintT(<<"BEH", ToJson(TableRow(o))>>) ELSE PrintT(<<"BEH", ToJson(Script)>>)
Spec == Init /\ [][Next]_vars

\* sanity of the transcription: the verdict is total and an accepted request has a definite type per stream
VerdictSane ==
  Family = "tables" \/
  LET v == Verdict(o) IN
  /\ v.v \in {"reject", "late", "unspecified", "accept"}
  /\ v.v = "accept" => \A s \in 1..3 : v.eff[s].t \in 1..7 /\ (v.eff[s].t = T_STDOUT => s = 3)
  /\ (o.rd = <<U, U, U>> /\ o.sh = NoSh /\ v.v = "accept") => <<v.eff[1].t, v.eff[2].t, v.eff[3].t>> = <<T_PIPE, T_PIPE, T_PARENT>>
=============================================================================
