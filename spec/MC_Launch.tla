----------------------------- MODULE MC_Launch -----------------------------
(* TLC as enumerator and oracle for reproc_start (C10 C11 C13): every option   *)
(* record of the chosen family is judged by Launch!Verdict and, if accepted,    *)
(* its wiring computed; each becomes one script  new ; start  with the          *)
(* prediction attached.                                                         *)
EXTENDS Launch

CONSTANTS Family,     \* "options" | "wiring"
          StdMode     \* "open": the parent's 0,1,2 are open; "all": every open/closed pattern of them

StdSets == IF StdMode = "open" THEN {<<TRUE, TRUE, TRUE>>} ELSE [1..3 -> BOOLEAN]

VARIABLES phase, o, k
vars == <<phase, o, k>>

HFD == 5   \* a user-supplied handle lives on descriptor 5
FFD == 6   \* a user-supplied FILE lives on descriptor 6
PATHS == "/d/f"
Extras == <<<<HFD, 0, Name(HFD)>>, <<FFD, 0, Name(FFD)>>, <<9, 0, Name(9)>>, <<11, 1, Name(11)>>, <<30, 0, Name(30)>>, <<31, 0, Name(31)>>>>   \* 31 = the highest descriptor the limit (32) permits

R(t, h, f, p) == [t |-> t, h |-> h, f |-> f, p |-> p]
U == R(0, 0, 0, "")
AllRedirects == {R(t, h, f, p) : t \in 0..8, h \in {0, HFD}, f \in {0, FFD}, p \in {"", PATHS}}
Shorthands == {[parent |-> a, discard |-> b, file |-> c, path |-> d] : a \in BOOLEAN, b \in BOOLEAN, c \in {0, FFD}, d \in {"", PATHS}}
NoSh == [parent |-> FALSE, discard |-> FALSE, file |-> 0, path |-> ""]
Contexts == {<<U, U, U>>, <<R(T_PIPE, 0, 0, ""), R(T_DISCARD, 0, 0, ""), R(T_PIPE, 0, 0, "")>>}

Opt(rd, sh, input, fork, argv) == [rd |-> rd, sh |-> sh, input |-> input, fork |-> fork, argv |-> argv]

\* C13 (a): one stream ranges over every redirect value, times every shorthand combination, in two contexts;
\*          plus the input forms and the fork / argv forms
OptionPoints ==
  {Opt([c EXCEPT ![s] = r], sh, -1, FALSE, TRUE) : c \in Contexts, s \in 1..3, r \in AllRedirects, sh \in Shorthands}
  \cup {Opt(<<ri, U, U>>, sh, inp, FALSE, TRUE) :
          ri \in {U, R(T_PIPE, 0, 0, ""), R(T_DISCARD, 0, 0, ""), R(T_PARENT, 0, 0, ""), R(0, HFD, 0, ""), R(0, 0, 0, PATHS)},
          sh \in {NoSh, [NoSh EXCEPT !.parent = TRUE], [NoSh EXCEPT !.discard = TRUE]}, inp \in {-1, -2, 0, 2}}
  \cup {Opt(<<U, U, U>>, NoSh, -1, f, a) : f \in BOOLEAN, a \in BOOLEAN}

\* C10: every valid combination of explicit types, plus the shorthands and the defaults
ValidIn == {R(T_PIPE, 0, 0, ""), R(T_PARENT, 0, 0, ""), R(T_DISCARD, 0, 0, ""), R(T_HANDLE, HFD, 0, ""), R(T_FILE, 0, FFD, ""), R(T_PATH, 0, 0, PATHS), U}
ValidErr == ValidIn \cup {R(T_STDOUT, 0, 0, "")}
WiringPoints ==
  {Opt(<<a, b, c>>, NoSh, -1, FALSE, TRUE) : a \in ValidIn, b \in ValidIn, c \in ValidErr}
  \cup {Opt(<<U, U, U>>, sh, -1, FALSE, TRUE) : sh \in {[NoSh EXCEPT !.parent = TRUE], [NoSh EXCEPT !.discard = TRUE],
                                                       [NoSh EXCEPT !.file = FFD], [NoSh EXCEPT !.path = PATHS]}}
  \cup {Opt(<<R(T_PIPE, 0, 0, ""), b, c>>, NoSh, 2, FALSE, TRUE) : b \in {U, R(T_PARENT, 0, 0, "")}, c \in {U, R(T_STDOUT, 0, 0, "")}}

Points == IF Family = "options" THEN OptionPoints ELSE WiringPoints

Init == phase = "pick" /\ o \in Points /\ k \in {[std |-> s, hasInput |-> FALSE] : s \in StdSets}

RJ(r) == <<r.t, r.h, r.f, r.p>>
CfgRec == [e |-> "cfg", cap |-> 8, limit |-> 32, fds |-> [s \in 1..3 |-> IF k.std[s] THEN 1 ELSE 0], extra |-> Extras]
StartRec == [e |-> "call", fn |-> "start", h |-> 1, term |-> 2, argv |-> IF o.argv THEN <<"/bin/c">> ELSE <<>>, noargv |-> IF o.argv THEN 0 ELSE 1,
             o |-> [rin |-> RJ(o.rd[1]), rout |-> RJ(o.rd[2]), rerr |-> RJ(o.rd[3]),
                    parent |-> IF o.sh.parent THEN 1 ELSE 0, discard |-> IF o.sh.discard THEN 1 ELSE 0,
                    file |-> o.sh.file, path |-> o.sh.path, input |-> o.input, fork |-> IF o.fork THEN 1 ELSE 0]]
BaseFds == Cardinality({s \in 1..3 : k.std[s]}) + Len(Extras)

Expected ==
  LET v == Verdict(o)
      kk == [k EXCEPT !.hasInput = o.input >= 0]
      common == [e |-> "ret", mon |-> <<>>, nalloc |-> 1]
  IN CASE v.v = "reject" -> common @@ [r |-> EINVAL, created |-> 0, nfd |-> BaseFds, left |-> 0]
       [] v.v = "late" -> common @@ [r |-> EINVAL, nfd |-> BaseFds, left |-> 0]
       [] v.v = "unspecified" -> [e |-> "ret", mon |-> <<>>]
       [] v.v = "accept" /\ o.fork -> [e |-> "ret", mon |-> <<>>, r |-> 1]
       [] v.v = "accept" -> common @@ [r |-> 1, cw |-> ChildWiring(v.eff, kk), cx |-> ChildExtra(v.eff),
                                      pp |-> ParentEnds(v.eff, kk.hasInput), cnb |-> 0, cexec |-> 1,
                                      nfd |-> BaseFds + Len(ParentEnds(v.eff, kk.hasInput)), left |-> 0]

Script == <<CfgRec, [e |-> "call", fn |-> "new", h |-> 1], [e |-> "ret", r |-> 1], StartRec, Expected>>

Next == phase = "pick" /\ phase' = "done" /\ UNCHANGED <<o, k>> /\ PrintT(<<"BEH", ToJson(Script)>>)
Spec == Init /\ [][Next]_vars

\* sanity of the transcription: the verdict is total and an accepted request has a definite type per stream
VerdictSane ==
  LET v == Verdict(o) IN
  /\ v.v \in {"reject", "late", "unspecified", "accept"}
  /\ v.v = "accept" => \A s \in 1..3 : v.eff[s].t \in 1..7 /\ (v.eff[s].t = T_STDOUT => s = 3)
  /\ (o.rd = <<U, U, U>> /\ o.sh = NoSh /\ v.v = "accept") => <<v.eff[1].t, v.eff[2].t, v.eff[3].t>> = <<T_PIPE, T_PIPE, T_PARENT>>
=============================================================================
