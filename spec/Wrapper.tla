------------------------------ MODULE Wrapper ------------------------------
(***************************************************************************)
(* C19: reproc++ as a mapping onto the C API.                               *)
(*   MapOptions : C++ options record |-> C options record, field by field   *)
(*   Clone      : identity on options                                       *)
(*   MapResult  : C return value |-> (value, error code)                    *)
(* TLC enumerates option records in which every field takes several         *)
(* pairwise distinguishable values (so that a swapped, dropped or           *)
(* defaulted field is visible), every wrapper method with every class of C  *)
(* return value, and emits one script per point with the prediction.        *)
(***************************************************************************)
EXTENDS Integers, Sequences, FiniteSets, TLC, Json

VARIABLES phase, pt
vars == <<phase, pt>>

NoR == <<0, 0, 0, "">>
NoStop == <<<<0, 0>>, <<0, 0>>, <<0, 0>>>>
Base == [envb |-> 0, envx |-> <<>>, wd |-> "", rin |-> NoR, rout |-> NoR, rerr |-> NoR, parent |-> 0, discard |-> 0,
         file |-> 0, path |-> "", stop |-> NoStop, dl |-> 0, input |-> <<-1, 0>>, nb |-> 0, tmo |-> 0]   \* (tmo: the C++-only `timeout` member - it has no C counterpart and reaches no C option)

\* every field with pairwise distinguishable values
Variations ==
  {[Base EXCEPT !.envb = 1]}
  \cup {[Base EXCEPT !.envx = x] : x \in {<<"A=1">>, <<"A=3", "B=2">>, <<"K=", "L=a=b", "M= x ">>}}
  \cup {[Base EXCEPT !.wd = w] : w \in {"/d", "/x y"}}
  \cup {[Base EXCEPT !.rin = <<t, 3, 1, "/pi">>, !.rout = <<(t + 1) % 8, 4, 2, "/po">>, !.rerr = <<(t + 2) % 8, 5, 3, "/pe">>] : t \in 0..7}
  \cup {[Base EXCEPT !.parent = a, !.discard = b, !.nb = c] : a \in {0, 1}, b \in {0, 1}, c \in {0, 1}}
  \cup {[Base EXCEPT !.file = f, !.path = p] : f \in {0, 4, 5}, p \in {"", "/p1", "/p2"}}
  \cup {[Base EXCEPT !.stop = <<<<a, 11>>, <<(a + 1) % 4, 22>>, <<(a + 2) % 4, 33>>>>] : a \in 0..3}
  \cup {[Base EXCEPT !.stop = <<<<1, -1>>, <<2, -2>>, <<3, 0>>>>]}
  \cup {[Base EXCEPT !.dl = d] : d \in {7, 1000000}}
  \cup {[Base EXCEPT !.tmo = 300], [Base EXCEPT !.tmo = 300, !.dl = 7]}
  \cup {[Base EXCEPT !.input = i] : i \in {<<0, 0>>, <<1, 5>>, <<4, 9>>}}
  \cup {[Base EXCEPT !.rin = <<1, 0, 0, "">>, !.input = <<2, 3>>, !.nb = 1, !.dl = 5, !.envb = 1, !.wd = "/w", !.parent = 0, !.discard = 1]}

Args == {<<"p">>, <<"p", "a b", "", "q\"x">>}

MapOptions(o, fork, envmode, args) ==
  [wd |-> o.wd, envb |-> o.envb, envx |-> o.envx, envnull |-> IF envmode = "none" THEN 1 ELSE 0,
   rin |-> o.rin, rout |-> o.rout, rerr |-> o.rerr, parent |-> o.parent, discard |-> o.discard, file |-> o.file, path |-> o.path,
   stop |-> o.stop, dl |-> o.dl, input |-> o.input, fork |-> IF fork THEN 1 ELSE 0, nb |-> o.nb,
   argv |-> IF fork THEN <<>> ELSE args, argvnull |-> IF fork THEN 1 ELSE 0]

\* <<value, ok, error value, equivalent to errc(-r)>>
MapResult(val, r) == IF r < 0 THEN <<val, 0, -r, 1>> ELSE <<val, 1, 0, 1>>

StartPoints ==
  {[op |-> op, o |-> o, args |-> a, argmode |-> am, envmode |-> IF o.envx = <<>> THEN em ELSE em2, ret |-> r,
    exp |-> [c |-> MapOptions(o, op = "fork", IF o.envx = <<>> THEN em ELSE em2, a),
             res |-> MapResult(IF op = "fork" THEN (IF r = 0 THEN 1 ELSE 0) ELSE 0, r)]] :
     op \in {"start", "fork", "clone_start"}, o \in Variations \cup {Base}, a \in Args,
     am \in {"vec", "raw", "held"},   \* held: converted to reproc::arguments first, the source container changed afterwards
     em \in {"none", "raw"}, em2 \in {"vec", "map", "raw"}, r \in {1, 0, -22}}

\* a null argument vector handed to start(): it is passed on as it is, start() stays start() (fork mode is fork()'s alone) and the
\* C result comes back unchanged
NullArgPoints ==
  {[op |-> op, o |-> Base, args |-> <<>>, argmode |-> "null", envmode |-> "none", ret |-> r,
    exp |-> [c |-> [MapOptions(Base, FALSE, "none", <<>>) EXCEPT !.argvnull = 1], res |-> MapResult(0, r)]] :
     op \in {"start", "clone_start"}, r \in {-22, 1}}

\* a start the C layer refuses, then another start on the same process object: the second call reaches the C layer like the first
\* (the C handle is still there and not started)
RestartPoints ==
  {[op |-> "restart", o |-> Base, args |-> <<"p">>, argmode |-> "vec", envmode |-> "none", ret |-> 1, ret1 |-> r1,
    exp |-> [c |-> MapOptions(Base, FALSE, "none", <<"p">>), res |-> MapResult(0, 1), first |-> MapResult(0, r1), ncalls |-> 2]] : r1 \in {-22, -2, -12}}

Rets == {-22, -32, -110, -12, -11, -5, -4, -2, 0, 1, 7, 143}   \* (-4: an interrupted call is reported like any other error, once, not retried)
MethodPoints ==
  {[op |-> "method", m |-> "pid", ret |-> r, exp |-> [last |-> "pid", res |-> MapResult(r, r)]] : r \in Rets}
  \cup {[op |-> "method", m |-> "wait", arg |-> t, ret |-> r, exp |-> [last |-> "wait", seen |-> <<t>>, res |-> MapResult(r, r)]] : r \in Rets, t \in {0, 25, -1, -2}}
  \cup {[op |-> "method", m |-> m, ret |-> r, exp |-> [last |-> m, res |-> MapResult(0, r)]] : m \in {"terminate", "kill"}, r \in Rets}
  \cup {[op |-> "method", m |-> "close", arg |-> s, ret |-> r, exp |-> [last |-> "close", seen |-> <<s>>, res |-> MapResult(0, r)]] : s \in 0..2, r \in Rets}
  \cup {[op |-> "method", m |-> "stop", stop |-> <<<<a, 11>>, <<(a + 1) % 4, -1>>, <<(a + 2) % 4, -2>>>>, ret |-> r,
         exp |-> [last |-> "stop", seen |-> <<a, 11, (a + 1) % 4, -1, (a + 2) % 4, -2>>, res |-> MapResult(r, r)]] : a \in 0..3, r \in Rets}
  \cup {[op |-> "method", m |-> "read", arg |-> s, size |-> n, ret |-> r,
         exp |-> [last |-> "read", seen |-> <<s, 2, n>>, res |-> MapResult(IF r >= 0 THEN r ELSE 0, r)]] : s \in {1, 2}, n \in {0, 5}, r \in Rets}
  \cup {[op |-> "method", m |-> "write", size |-> n, ret |-> r,
         exp |-> [last |-> "write", seen |-> <<3, n>>, res |-> MapResult(IF r >= 0 THEN r ELSE 0, r)]] : n \in {0, 7}, r \in Rets}
  \cup {[op |-> "method", m |-> "poll1", arg |-> i, to |-> t, ret |-> r,
         exp |-> [last |-> "poll", seen |-> <<i, t, 1>>, res |-> MapResult(IF r >= 0 THEN 3 ELSE 0, r)]] : i \in {2, 15}, t \in {0, 40, -1}, r \in Rets}
  \cup {[op |-> "method", m |-> "polln", to |-> t, ret |-> r,
         exp |-> [last |-> "poll", seen |-> <<5, 10, t, 2>>, res |-> MapResult(IF r >= 0 THEN 306 ELSE 0, r)]] : t \in {0, -1}, r \in Rets}

ConstPoints == {[op |-> "consts", exp |-> [same |-> 1]]}

Points == StartPoints \cup NullArgPoints \cup RestartPoints \cup MethodPoints \cup ConstPoints

Init == phase = "pick" /\ pt \in Points
Next == phase = "pick" /\ phase' = "done" /\ UNCHANGED pt /\ PrintT(<<"BEH", ToJson(pt)>>)
Spec == Init /\ [][Next]_vars

\* sanity: the mapping loses nothing (it is injective on the enumerated option records)
\* (... on everything but the C++-only member, which it must ignore)
Injective == \A a, b \in Variations \cup {Base} : [a EXCEPT !.tmo = 0] # [b EXCEPT !.tmo = 0] => MapOptions(a, FALSE, "none", <<"p">>) # MapOptions(b, FALSE, "none", <<"p">>)
=============================================================================
