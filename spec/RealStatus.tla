----------------------------- MODULE RealStatus -----------------------------
(* C01 on the real kernel: records of  start ; wait(INF) ; wait(0) ; stop ; terminate ; kill ; destroy  with a real   *)
(* child that exits with code n or dies of signal n.  The decoding rule and the stability / reap-once clauses are     *)
(* those of Core.tla (Reap, the cached status, Signal on an exited handle).                                           *)
EXTENDS Integers, Sequences, FiniteSets, TLC, Json, IOUtils

Tr == ndJsonDeserialize(IOEnv.TRACE)
StatusOf(rec) == IF rec.kind = "exit" THEN rec.n ELSE 128 + rec.n

Clauses(rec) ==
  (IF rec.kind = "startfail" THEN {"start-failed"} ELSE {}) \cup
  (IF rec.kind # "startfail" /\ rec.r1 # StatusOf(rec) THEN {"status-not-exact"} ELSE {}) \cup
  (IF rec.kind # "startfail" /\ (rec.r2 # rec.r1 \/ rec.r3 # rec.r1) THEN {"status-not-stable"} ELSE {}) \cup
  (IF rec.kind # "startfail" /\ (rec.t # 0 \/ rec.k # 0 \/ rec.kills # 0) THEN {"signal-after-reap"} ELSE {}) \cup
  (IF rec.kind # "startfail" /\ rec.reaps # 1 THEN {"not-reaped-exactly-once"} ELSE {}) \cup
  (IF rec.kind # "startfail" /\ rec.zombie # 0 THEN {"zombie-left"} ELSE {})

VARIABLES l, bad
vars == <<l, bad>>
Init == l = 1 /\ bad = <<>>
Step == /\ l <= Len(Tr) /\ l' = l + 1
        /\ LET c == Clauses(Tr[l]) IN bad' = IF c = {} THEN bad ELSE Append(bad, [id |-> Tr[l].id, why |-> c])
Report == l = Len(Tr) + 1 /\ l' = l + 1 /\ UNCHANGED bad /\ PrintT(<<"VERDICT", ToJson(bad)>>)
Next == Step \/ Report
Spec == Init /\ [][Next]_vars
Accepted == TLCGet("stats").diameter = Len(Tr) + 2
=============================================================================
