----------------------------- MODULE WinCmdLine -----------------------------
(***************************************************************************)
(* C18: the Windows command line and environment block.                     *)
(*                                                                         *)
(* Split is the documented argument-parsing rule of the Microsoft C         *)
(* runtime / CommandLineToArgvW ("Parsing C command-line arguments"),       *)
(* written here independently of any quoting algorithm:                     *)
(*   - arguments are delimited by space or tab outside quotes;              *)
(*   - the program name is taken verbatim up to the first white space (or   *)
(*     between quotes if it starts with one); no backslash processing;      *)
(*   - 2n backslashes followed by a quote give n backslashes and the quote  *)
(*     toggles quoting; 2n+1 backslashes followed by a quote give n         *)
(*     backslashes and a literal quote; backslashes elsewhere are literal;  *)
(*   - inside quotes, two quotes in a row give one literal quote;           *)
(*   - an argument exists once anything (even an empty quoted string) of it *)
(*     has been seen.                                                       *)
(* Each trace record is what a stubbed CreateProcessW received from the     *)
(* real process.windows.c; the requirement is Split(cmd) = argv, buffer     *)
(* size = Len(cmd) + 1, and block = parent entries ++ extra entries, each   *)
(* NUL-terminated, closed by a final NUL.                                   *)
(***************************************************************************)
EXTENDS Integers, Sequences, FiniteSets, TLC, Json, IOUtils

Tr == ndJsonDeserialize(IOEnv.TRACE)

SP == 32  TAB == 9  QUOTE == 34  BS == 92
IsWs(c) == c = SP \/ c = TAB

RECURSIVE CountBs(_, _)
CountBs(s, i) == IF i <= Len(s) /\ s[i] = BS THEN 1 + CountBs(s, i + 1) ELSE 0
Rep(c, n) == [k \in 1..n |-> c]

RECURSIVE Args(_, _, _, _, _, _)
Args(s, i, inq, cur, started, out) ==
  IF i > Len(s) THEN (IF started THEN Append(out, cur) ELSE out)
  ELSE LET c == s[i] IN
    IF ~inq /\ IsWs(c) THEN Args(s, i + 1, FALSE, <<>>, FALSE, IF started THEN Append(out, cur) ELSE out)
    ELSE IF c = BS THEN
      LET n == CountBs(s, i)
          j == i + n
      IN IF j <= Len(s) /\ s[j] = QUOTE
           THEN IF n % 2 = 0 THEN Args(s, j, inq, cur \o Rep(BS, n \div 2), TRUE, out)
                ELSE Args(s, j + 1, inq, cur \o Rep(BS, (n - 1) \div 2) \o <<QUOTE>>, TRUE, out)
           ELSE Args(s, j, inq, cur \o Rep(BS, n), TRUE, out)
    ELSE IF c = QUOTE THEN
      IF inq /\ i + 1 <= Len(s) /\ s[i + 1] = QUOTE THEN Args(s, i + 2, TRUE, Append(cur, QUOTE), TRUE, out)
      ELSE Args(s, i + 1, ~inq, cur, TRUE, out)
    ELSE Args(s, i + 1, inq, Append(cur, c), TRUE, out)

\* index just after the program name, and the program name itself
ProgEnd(s) ==
  IF Len(s) > 0 /\ s[1] = QUOTE
    THEN LET ends == {k \in 2..Len(s) : s[k] = QUOTE} IN IF ends = {} THEN Len(s) + 1 ELSE (CHOOSE k \in ends : \A m \in ends : k <= m) + 1
    ELSE LET ws == {k \in 1..Len(s) : IsWs(s[k])} IN IF ws = {} THEN Len(s) + 1 ELSE CHOOSE k \in ws : \A m \in ws : k <= m
ProgName(s) ==
  IF Len(s) > 0 /\ s[1] = QUOTE THEN SubSeq(s, 2, ProgEnd(s) - 2) ELSE SubSeq(s, 1, ProgEnd(s) - 1)

Split(s) == <<ProgName(s)>> \o Args(s, ProgEnd(s), FALSE, <<>>, FALSE, <<>>)

\* the strings given to the library are UTF-8, what CreateProcessW receives is UTF-16: a two-byte sequence (110xxxxx 10xxxxxx)
\* is ONE unit there (the enumerations use one- and two-byte sequences only)
RECURSIVE Dec(_)
Dec(s) == IF s = <<>> THEN <<>>
          ELSE IF Len(s) >= 2 /\ s[1] >= 194 /\ s[1] <= 223 /\ s[2] >= 128 /\ s[2] <= 191
                 THEN <<(s[1] - 192) * 64 + (s[2] - 128)>> \o Dec(SubSeq(s, 3, Len(s)))
                 ELSE <<s[1]>> \o Dec(Tail(s))
\* length in UTF-8 bytes of a string of UTF-16 units below 0x800 (the command line is joined in UTF-8, then converted)
RECURSIVE Len8(_)
Len8(s) == IF s = <<>> THEN 0 ELSE (IF s[1] >= 128 THEN 2 ELSE 1) + Len8(Tail(s))
DecAll(ss) == [i \in 1..Len(ss) |-> Dec(ss[i])]
RECURSIVE Block(_)
Block(entries) == IF entries = <<>> THEN <<>> ELSE Head(entries) \o <<0>> \o Block(Tail(entries))
ExpBlock(rec) == Block((IF rec.envb = 0 THEN rec.penv ELSE <<>>) \o DecAll(rec.envx)) \o <<0>>

\* rec.fault: 0 = none; k in 1..99 = the k-th allocation of the start fails; 100 = an argument / entry that cannot be converted
Clauses(rec) ==
  (IF rec.fault = 0 /\ (rec.r # 1 \/ rec.created # 1) THEN {"start-failed"} ELSE {}) \cup
  (IF rec.fault # 0 /\ rec.r # 1 /\ rec.created # 0 THEN {"process-created-although-start-failed"} ELSE {}) \cup
  (IF rec.fault # 0 /\ rec.r = 1 /\ rec.created # 1 THEN {"success-without-a-process"} ELSE {}) \cup
  (IF rec.fault = 100 /\ rec.r = 1 THEN {"unconvertible-input-accepted"} ELSE {}) \cup
  (IF rec.r = 1 /\ Split(rec.cmd) # DecAll(rec.argv) THEN {"split-differs-from-argv"} ELSE {}) \cup
  (IF rec.r = 1 /\ rec.alloc # Len8(rec.cmd) + 1 THEN {"command-line-buffer-not-exact"} ELSE {}) \cup
  (IF rec.r = 1 /\ rec.block # ExpBlock(rec) THEN {"environment-block-wrong"} ELSE {})

VARIABLES l, bad
vars == <<l, bad>>
Init == l = 1 /\ bad = <<>>
Step == /\ l <= Len(Tr) /\ l' = l + 1
        /\ LET c == Clauses(Tr[l]) IN bad' = IF c = {} \/ Len(bad) >= 200 THEN bad ELSE Append(bad, [id |-> Tr[l].id, why |-> c])
Report == l = Len(Tr) + 1 /\ l' = l + 1 /\ UNCHANGED bad /\ PrintT(<<"VERDICT", ToJson(bad)>>)
Next == Step \/ Report
Spec == Init /\ [][Next]_vars
Accepted == TLCGet("stats").diameter = Len(Tr) + 2

\* self-check of the rule on documented examples (evaluated once, as an ASSUME)
S(str) == str
ASSUME Args(<<97, SP, QUOTE, 98, SP, 99, QUOTE, SP, QUOTE, QUOTE>>, 1, FALSE, <<>>, FALSE, <<>>) = <<<<97>>, <<98, SP, 99>>, <<>>>>
ASSUME Args(<<97, BS, BS, BS, QUOTE, 98>>, 1, FALSE, <<>>, FALSE, <<>>) = <<<<97, BS, QUOTE, 98>>>>
ASSUME Args(<<QUOTE, 97, BS, BS, QUOTE, SP, 98>>, 1, FALSE, <<>>, FALSE, <<>>) = <<<<97, BS>>, <<98>>>>
ASSUME Args(<<97, BS, BS, 98>>, 1, FALSE, <<>>, FALSE, <<>>) = <<<<97, BS, BS, 98>>>>
=============================================================================
