------------------------------- MODULE MC_Two -------------------------------
(* Two handles (C01 C05 C06): whatever is done to one handle - including one    *)
(* that was never started or whose start failed - must not touch the other     *)
(* handle's child: no signal, no reap, no status taken away.                    *)
EXTENDS Core

KillNow == <<<<KILL, INF>>, <<NOOP, 0>>, <<NOOP, 0>>>>
NoStop == <<<<NOOP, 0>>, <<NOOP, 0>>, <<NOOP, 0>>>>
O(pr) == [dl |-> 0, stop |-> KillNow, nb |-> TRUE, rin |-> 0, rout |-> 0, rerr |-> 0, input |-> -1, term |-> 0, self |-> TRUE, prog |-> pr]

Next ==
  \/ ncalls = 0 /\ New(1)
  \/ ncalls = 1 /\ Start(1, O("/bin/c"))
  \/ ncalls = 2 /\ New(2)
  \/ ncalls >= 3 /\ life[2] = "ns" /\ \E pr \in {"/bin/c", "/nonexistent"} : Start(2, O(pr))
  \/ ncalls >= 3 /\ \E h \in {1, 2} : Wait(h, 0) \/ Terminate(h) \/ Kill(h) \/ Stop(h, KillNow) \/ Destroy(h) \/ Pid(h)
  \/ Resume
  \/ \E h \in {1, 2} : ChildExit(h, 3 + h)

Spec == Init /\ [][Next]_vars
Export == ExportRet
\* each handle reports its own child's status
OwnStatus == \A h \in Handles : life[h] = "exited" => stv[h] = ch[h].code
=============================================================================
