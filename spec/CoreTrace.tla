------------------------------ MODULE CoreTrace ------------------------------
(***************************************************************************)
(* Trace validation of free-running executions of the real code against    *)
(* Core.tla (the behavioural contract of C01 C02 C06-C09 C14-C17).         *)
(*                                                                         *)
(* The driver runs randomly generated call sequences against reproc over   *)
(* the simulated kernel in free-running mode: children follow timed        *)
(* schedules of their own, the kernel advances the virtual clock whenever  *)
(* a call blocks, and every step is logged - `begin` (call + arguments),   *)
(* `env` (what the children / the clock did, with arguments), `obs` (what  *)
(* the call returned and did).  Each line is matched to the Core action of *)
(* the same name with the logged arguments bound; the only unlogged step   *)
(* is the resumption of a blocked call, which the model forces (urgency),  *)
(* so validation is linear in the length of the trace.  Many executions    *)
(* are concatenated; a `cfg` line re-initialises the model.                *)
(***************************************************************************)
EXTENDS Core, IOUtils

Tr == ndJsonDeserialize(IOEnv.TRACE)
VARIABLE l
tvars == <<vars, l>>

Rec == Tr[l]

\* time passes d ticks at once: allowed only if nothing urgent lies strictly before the new time
TickN(d) ==
  /\ EnvOK /\ d >= 1
  /\ (fr.pc = "blocked" /\ fr.until # INF) => now + d <= fr.until
  /\ \A h \in Handles : (ch[h].alive = "run" /\ ch[h].termAt # INF) => now + d <= ch[h].termAt
  /\ now' = now + d
  /\ hist' = Append(hist, [e |-> "env", k |-> "adv", d |-> d])
  /\ UNCHANGED <<life, stv, opt, pend, ch, buf, cnt, fr, ncalls>>

SinkOf(x) == IF x[1] = "str" THEN <<x[3], ENOMEM, "str", x[2]>> ELSE IF x[1] = "rec" THEN <<x[2], x[3]>> ELSE <<0, 0>>

TBegin ==
  /\ Rec.e = "begin" /\ l' = l + 1
  /\ LET c == Rec.call IN
     CASE c.fn = "new" -> New(c.h)
       [] c.fn = "start" -> Start(c.h, c.m)
       [] c.fn = "pid" -> Pid(c.h)
       [] c.fn = "wait" -> Wait(c.h, c.to)
       [] c.fn = "terminate" -> Terminate(c.h)
       [] c.fn = "kill" -> Kill(c.h)
       [] c.fn = "stop" -> Stop(c.h, c.a)
       [] c.fn = "destroy" -> Destroy(c.h)
       [] c.fn = "close" -> Close(c.h, c.s)
       [] c.fn = "read" -> Read(c.h, c.s, c.n, c.nullbuf)
       [] c.fn = "write" -> Write(c.h, c.n, c.nullbuf)
       [] c.fn = "poll" -> Poll(c.src, c.to)
       [] c.fn = "drain" -> Drain(c.h, <<SinkOf(c.sinks[1]), SinkOf(c.sinks[2])>>, IF c.sinks[1][1] = "nofn" THEN 1 ELSE 0)

TEnv ==
  /\ Rec.e = "env" /\ l' = l + 1 /\ UNCHANGED ncalls
  /\ CASE Rec.k = "adv" -> TickN(Rec.d)
       [] Rec.k = "out" -> ChildOut(Rec.h, Rec.n)
       [] Rec.k = "err" -> ChildErr(Rec.h, Rec.n)
       [] Rec.k = "exit" -> ChildExit(Rec.h, Rec.code)
       [] Rec.k = "die" -> ChildDie(Rec.h)
       [] Rec.k = "cclose" -> ChildClose(Rec.h, Rec.fd)
       [] Rec.k = "cclosex" -> ChildCloseX(Rec.h)
       [] Rec.k = "cread" -> ChildRead(Rec.h, Rec.n)
       [] Rec.k = "eintr" -> Interrupt
       [] Rec.k = "exitg" -> ChildExitG(Rec.h, Rec.code)
       [] Rec.k = "ggone" -> GrandGone(Rec.h)

\* does the observation logged by the code agree with what the model predicts for this return?
ObsMatches(ret, o) ==
  \A key \in DOMAIN ret \ {"e", "ralt"} :
    /\ key \in DOMAIN o
    /\ IF key = "rev" THEN \E i \in 1..Len(ret.rev.any) : ret.rev.any[i] = o.rev
       ELSE IF key = "r" /\ "ralt" \in DOMAIN ret THEN \E i \in 1..Len(ret.r.any) : ret.r.any[i] = o.r
       ELSE ret[key] = o[key]

TObs ==
  /\ Rec.e = "obs" /\ fr.fn = "none" /\ hist # <<>> /\ hist[Len(hist)].e = "ret"
  /\ ObsMatches(hist[Len(hist)], Rec.o)
  /\ l' = l + 1 /\ UNCHANGED vars

\* the resumption of a blocked call is not logged; the model forces it as soon as the call can continue
TSilent == Wake /\ Resume /\ l' = l

\* the execution ended because the call in flight can never continue (nothing is scheduled any more): the model must agree
TStuck == Rec.e = "stuck" /\ fr.pc \in {"blocked", "blocked2"} /\ ~Wake /\ l' = l + 1 /\ UNCHANGED vars

\* next execution
TReset ==
  /\ Rec.e = "cfg" /\ l' = l + 1
  /\ life' = [h \in Handles |-> "none"] /\ stv' = [h \in Handles |-> -1] /\ opt' = [h \in Handles |-> NoOpt]
  /\ pend' = [h \in Handles |-> NoPend] /\ ch' = [h \in Handles |-> NoChild] /\ buf' = [h \in Handles |-> NoBuf]
  /\ cnt' = [h \in Handles |-> NoCnt] /\ now' = 0 /\ fr' = NoFrame /\ ncalls' = 0 /\ hist' = <<[e |-> "cfg"]>>

TraceInit == Init /\ l = 1
TraceNext == l <= Len(Tr) /\ (TBegin \/ TEnv \/ TObs \/ TSilent \/ TStuck \/ TReset)
TraceSpec == TraceInit /\ [][TraceNext]_tvars

\* how far the trace was matched (register 1; -workers 1)
Progress == TLCSet(1, IF TLCGet(1) > l THEN TLCGet(1) ELSE l)
ASSUME TLCSet(1, 0)
Report == PrintT(<<"MATCHED", TLCGet(1), Len(Tr)>>)
=============================================================================
