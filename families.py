"""Families of model runs and the per-property checks built from them (DESIGN.md 6, 9)."""
import glob
import json
import os
import re
import shutil
import subprocess
import sys
import threading
import time

import vlib
from vlib import Infra, OUT, SPEC, VERIF, NCPU

SEED = int(os.environ.get("VERIF_SEED", "1") or 1)

# --------------------------------------------------------------------------------------
# TLC export -> driver pool
# --------------------------------------------------------------------------------------


def write_cfg(path, spec, constants, invariants, view="view", constraint=None, action_constraint="Export", props=(), export_stride=None):
    if export_stride is not None:
        constants = dict(constants)
        constants["ExportStride"] = export_stride
        constants["ExportOffset"] = SEED % export_stride
    with open(path, "w") as f:
        f.write("SPECIFICATION %s\n" % spec)
        if constants:
            f.write("CONSTANTS\n")
        for k, v in constants.items():
            f.write("  %s = %s\n" % (k, v) if v is not None else "  %s\n" % k)
        if view:
            f.write("VIEW %s\n" % view)
        if invariants:
            f.write("INVARIANTS %s\n" % " ".join(invariants))
        if props:
            f.write("PROPERTIES %s\n" % " ".join(props))
        if constraint:
            f.write("CONSTRAINT %s\n" % constraint)
        if action_constraint:
            f.write("ACTION_CONSTRAINT %s\n" % action_constraint)
        f.write("CHECK_DEADLOCK FALSE\n")


def parse_tlc_stats(text):
    st = {"states": 0, "transitions": 0, "depth": 0, "error": None}
    m = re.search(r"(\d[\d,]*) states generated, (\d[\d,]*) distinct states found", text)
    if m:
        st["transitions"] = int(m.group(1).replace(",", ""))
        st["states"] = int(m.group(2).replace(",", ""))
    m = re.search(r"depth of the complete state graph search is (\d+)", text)
    if m:
        st["depth"] = int(m.group(1))
    if "Model checking completed. No error has been found." not in text and "states generated" in text:
        pass
    errs = [l for l in text.splitlines() if l.startswith("Error:")]
    if errs:
        st["error"] = "\n".join(errs[:5])
    m = re.search(r"The number of states generated: (\d+)", text)
    if m:
        st["sim_states"] = int(m.group(1))
    m = re.search(r"Invariant (\w+) is violated", text)
    if m:
        st["invariant_violated"] = m.group(1)
    return st


class Pool:
    """A set of driver processes fed round-robin; verdicts go to files."""

    def __init__(self, exe, n, outdir, tag, env=None, args=()):
        self.procs = []
        self.files = []
        self.n = n
        self.sent = 0
        e = dict(os.environ)
        e.update(env or {})
        for i in range(n):
            fn = os.path.join(outdir, "verdicts_%s_%d.ndjson" % (tag, i))
            fh = open(fn, "wb")
            errf = open(os.path.join(outdir, "stderr_%s_%d.txt" % (tag, i)), "wb")
            p = subprocess.Popen([exe] + list(args), stdin=subprocess.PIPE, stdout=fh, stderr=errf, env=e, bufsize=1 << 16)
            try:
                import fcntl
                fcntl.fcntl(p.stdin.fileno(), 1031, 1 << 20)  # F_SETPIPE_SZ: a driver may lag ~1000 scripts before we block
            except OSError:
                pass
            self.procs.append(p)
            self.files.append(fn)

    def send(self, line):
        p = self.procs[self.sent % self.n]
        self.sent += 1
        try:
            p.stdin.write(line)
        except BrokenPipeError:
            raise Infra("driver process died (see stderr files)")

    def finish(self):
        for p in self.procs:
            try:
                p.stdin.close()
            except BrokenPipeError:
                pass
        for p in self.procs:
            p.wait()
            if p.returncode != 0:
                raise Infra("driver exited with %d" % p.returncode)

    def results(self):
        ok = 0
        bad = []
        total = 0
        self.skipped = 0
        for fn in self.files:
            with open(fn, "rb") as f:
                for line in f:
                    total += 1
                    if line.startswith(b'{"i":') and b'"ok":1' in line[:40]:
                        ok += 1
                        if b'"skipped"' in line:
                            self.skipped += 1
                    else:
                        try:
                            bad.append(json.loads(line))
                        except Exception:
                            bad.append({"ok": 0, "kind": "garbled", "raw": line[:200].decode("latin1")})
        return total, ok, bad


def run_tlc_export(name, module, cfgpath, outdir, tier, asan_stride, tlc_workers=None, timeout=3000, max_scripts=None, simulate=None, stride=1,
                   exes=None, depth=40, driver_args=(), closed_stride=None):
    """Run TLC on module/cfg, stream every exported behaviour into plain (all) and
    sanitizer (every asan_stride-th) driver pools built from the working tree."""
    exe_plain, exe_asan = exes if exes else (vlib.build_driver("plain"), vlib.build_driver("asan"))
    nplain = max(2, NCPU - 6)
    nasan = 4
    pool = Pool(exe_plain, nplain, outdir, "plain", args=driver_args)
    apool = Pool(exe_asan, nasan, outdir, "asan", env=vlib.ASAN_ENV, args=driver_args)
    # a third replay of every closed_stride-th script by a caller whose stdin and stdout are closed (same predictions)
    cenv = dict(os.environ); cenv["VERIF_CLOSED_STD"] = "1"
    cpool = Pool(exe_plain, 2, outdir, "closedstd", env=cenv, args=driver_args) if closed_stride else None
    meta = os.path.join(outdir, "tlc_meta")
    shutil.rmtree(meta, ignore_errors=True)
    cmd = ["java", "-XX:+UseParallelGC", "-Xmx12g" if tier == "quick" else "-Xmx30g", "-cp", vlib.TLA_CP, "tlc2.TLC", "-workers", str(tlc_workers or 8),
           "-metadir", meta, "-config", cfgpath, "-fp", str(SEED % 120)]
    if simulate:
        cmd += ["-simulate", simulate, "-depth", str(depth), "-seed", str(SEED)]
    cmd += [os.path.join(SPEC, module + ".tla")]
    t0 = time.time()
    tlc = subprocess.Popen(cmd, stdout=subprocess.PIPE, stderr=subprocess.STDOUT, cwd=SPEC, bufsize=1 << 20)
    log = []
    nscripts = 0
    nsent = 0
    samples = []
    capped = False
    try:
        for line in tlc.stdout:
            if line.startswith(b'<<"BEH"'):
                if not line.endswith(b'">>\n'):
                    log.append(b"MALFORMED-BEH " + line[:100] + b"\n")
                    continue
                nscripts += 1
                if stride > 1 and (nscripts + SEED) % stride != 0:
                    continue  # quick tier: replay a seeded 1-in-stride sample of the exported transitions
                nsent += 1
                pool.send(line)
                if nsent % asan_stride == 0:
                    apool.send(line)
                if cpool and nsent % closed_stride == 0:
                    cpool.send(line)
                if len(samples) < 3 and nsent % 997 == 5:
                    samples.append(line)
                if max_scripts and nscripts >= max_scripts:
                    tlc.kill()
                    break
            else:
                log.append(line)
            if time.time() - t0 > timeout:
                tlc.kill()
                if simulate:   # a random sample is a sample of whatever size the time allowed (on a loaded machine: fewer walks)
                    capped = True
                    break
                raise Infra("TLC timed out after %ds in %s" % (timeout, name))
    finally:
        tlc.wait()
        pool.finish()
        apool.finish()
        if cpool:
            cpool.finish()
        shutil.rmtree(meta, ignore_errors=True)
        for f in glob.glob(os.path.join(SPEC, "*_TTrace_*")):
            os.remove(f)
    text = b"".join(log).decode("utf8", "replace")
    with open(os.path.join(outdir, "tlc.log"), "w") as f:
        f.write(text)
    st = parse_tlc_stats(text)
    if "MALFORMED-BEH" in text:
        raise Infra("TLC printed a malformed behaviour line in %s" % name)
    if st["states"] == 0 and not simulate:
        raise Infra("TLC did not report state counts for %s:\n%s" % (name, text[-2000:]))
    if st.get("error") and "invariant_violated" not in st and not (max_scripts and nscripts >= max_scripts) and not capped:
        raise Infra("TLC error in %s: %s\n%s" % (name, st["error"], text[-1500:]))
    total, ok, bad = pool.results()
    atotal, aok, abad = apool.results()
    if total != nsent:
        raise Infra("driver pool lost scripts: sent %d, verdicts %d" % (nsent, total))
    for b in abad:
        b["flavor"] = "asan"
    if cpool:
        ctotal, cok, cbad = cpool.results()
        for b in cbad:
            b["flavor"] = "closedstd"
        total += ctotal; ok += cok; bad = bad + cbad
    res = {"family": name, "tlc": st, "scripts": nscripts, "replayed": total + atotal, "ok": ok + aok, "bad": bad + abad,
           "samples": [unescape_beh(s) for s in samples], "wall_tlc": time.time() - t0, "asan_replayed": atotal,
           "skipped_no_counterpart": getattr(pool, "skipped", 0), "replay_stride": stride, "export_sampling": open(cfgpath).read().count("ExportStride") and [l.strip() for l in open(cfgpath) if "Export" in l and "=" in l]}
    return res


def unescape_beh(line):
    s = line.decode("utf8", "replace").strip()
    s = s[len('<<"BEH", "'):-len('">>')]
    out = []
    i = 0
    while i < len(s):
        if s[i] == "\\" and i + 1 < len(s):
            out.append(s[i + 1])
            i += 2
        else:
            out.append(s[i])
            i += 1
    try:
        return json.loads("".join(out))
    except Exception:
        return "".join(out)[:500]


# --------------------------------------------------------------------------------------
# attribution of a divergence to the properties that own the differing observable (DESIGN A.4)
# --------------------------------------------------------------------------------------
# in these families every behaviour is about one property's scenario (e.g. what a failed start leaves behind), so that
# property owns every divergence found there in addition to the owner of the differing observable
FAMILY_EXTRA_OWNERS = {"restart": {"C04", "C14"}}
MON_OWNER = {1: {"C05"}, 2: {"C05"}, 3: {"C06"}, 4: {"C06", "C01"}, 5: {"C05"}, 6: {"C14", "C04"}, 7: {"C14", "C05"},
             8: {"C14"}, 9: {"C06"}, 10: {"C01"}}
EINVAL, EPIPE, ETIMEDOUT, EWOULDBLOCK = -22, -32, -110, -11


def rclass(r):
    if not isinstance(r, int):
        return "other"
    if r >= 0:
        return "ok"
    return {EINVAL: "einval", EPIPE: "epipe"}.get(r, "err")


def owners(div):
    """Properties that own the observables in which this divergence shows (first-divergence attribution, DESIGN A.4).
    A mismatch lists every differing key of that return; the owners are the union over the keys."""
    kind = div.get("kind")
    fn = div.get("fn", "")
    obs = div.get("obs") if isinstance(div.get("obs"), dict) else {}
    if kind == "threads":
        # real threads: C20 always; cross-talk or a race inside poll / drain also breaks what C09 / C16 promise for each caller
        txt = " ".join(obs.get("fails") or []) + " " + " ".join(obs.get("races_in") or []) + " " + (obs.get("tail") or "")
        return ({"C20"} | ({"C09"} if ("poll-" in txt or "reproc_poll" in txt) else set()) | ({"C16"} if (" drain " in txt or "reproc_drain" in txt) else set())
                | ({"C13"} if ("start-rejected-valid" in txt or "start-accepted-invalid" in txt or "parse_options" in txt) else set())
                | ({"C12"} if "mask-after-start" in txt else set())
                | ({"C07"} if ("reproc_stop" in txt or "parse_stop_actions" in txt) else set())
                | ({"C15"} if ("reproc_destroy" in txt or "parse_stop_actions" in txt) else set())   # the stop policy destroy applies is the one given at this handle's start
                | ({"C08"} if any(w in txt for w in ("clock", "expiry", "deadline", "now ")) else set())   # every caller's deadlines are measured on the real clock
                | ({"C17"} if ("hang" in txt or "rw-" in txt) else set())   # a call that waits for something other than the child
                | ({"C02"} if any(w in txt for w in ("echo-differs", "read-end", "rw-", "reproc_read", "reproc_write", "reproc_drain", " drain ")) else set()))
    if kind == "optprod":
        return {"C13"}
    if kind == "rejected":
        return set(FREE_OWNERS.get(fn, {"C14"})) | {"C14"}
    if kind == "crash" and fn == "anyfault":
        return {"C05", "C14"}
    if kind == "crash" and fn == "wincmd":
        return {"C18"}
    if kind == "crash":
        # the process running the library died (or was replaced) inside this call: memory safety / "no crash" (C14, C05),
        # and whatever the call itself promises - a start that takes the caller down is not "all or nothing"
        return {"C14", "C05"} | STATE_OWNER.get(fn, set())
    if kind in ("infra", "badscript", "badenv", "garbled"):
        return {"INFRA"}
    if kind == "contract":
        return {w.split(":")[0] for w in div.get("why", [])}
    if kind == "envfail":
        # the environment could not do what the model says it can (e.g. the child has no such descriptor)
        return {"C10", "C02"}
    if kind in ("hang", "early"):
        own = set({"stop": {"C07"}, "wait": {"C08"}, "poll": {"C08"}, "destroy": {"C15"}, "read": {"C17", "C02"},
                   "write": {"C17", "C02"}, "start": {"C17", "C04"}, "drain": {"C16"}, "run": {"C16"}}.get(fn, {"C14"}))
        if fn in ("stop", "wait", "destroy") and kind == "hang":
            own |= {"C01"}
        if fn == "wait" and kind == "early" and obs.get("r") == ETIMEDOUT:
            own |= {"C09", "C01"}   # "timed out" although the exit handle hung up (an exit event would have been / was reported)
        return own
    if div.get("conc") or (isinstance(div.get("call"), dict) and div["call"].get("e") == "conc"):
        own = {"C20"} | ({"C12"} if "tmasks" in (div.get("keys") or []) else set()) | ({"C03"} if "penv" in (div.get("keys") or []) else set())
        if "mon" in (div.get("keys") or []):
            for m_ in (div.get("obs") or {}).get("mon") or []:
                own |= MON_OWNER.get(m_[0], set())
        if "kids" in (div.get("keys") or []):
            # which field of which child differs: wiring / extra descriptors / stdin writers are C11's, the environment C03's
            ek = (div.get("exp") or {}).get("kids") or []
            ok_ = (div.get("obs") or {}).get("kids") or []
            fields = set()
            for i in range(max(len(ek), len(ok_))):
                a = ek[i] if i < len(ek) else {}
                b = ok_[i] if i < len(ok_) else {}
                fields |= {k for k in set(a) | set(b) if a.get(k) != b.get(k)}
            own |= ({"C03"} if "cenv" in fields else set()) | ({"C10"} if "cw" in fields else set()) | ({"C11"} if (fields - {"cenv", "cw"}) or not fields else set())
        return own
    if fn in ("start", "fork", "clone_start", "method", "consts") and isinstance(div.get("call"), dict) and "op" in div.get("call"):
        return {"C19"}
    keys = div.get("keys") or [div.get("key", "")]
    exps = div.get("exp") if isinstance(div.get("exp"), dict) and div.get("keys") else {div.get("key", ""): div.get("exp")}
    own = set()
    for key in keys:
        own |= owners_key(fn, key, exps.get(key), obs)
    if isinstance(div.get("also"), dict):   # an allocation / descriptor count difference seen earlier in the same script
        for k in div["also"].get("keys") or ["nalloc"]:
            own |= owners_key((div["also"].get("call") or {}).get("fn", ""), k, None, {})
    return own or {"C14"}


STATE_OWNER = {"read": {"C02"}, "write": {"C02"}, "close": {"C02"}, "poll": {"C09"}, "wait": {"C01"}, "stop": {"C01", "C07"},
               "terminate": {"C06"}, "kill": {"C06"}, "drain": {"C16"}, "run": {"C16", "C05"}, "start": {"C04", "C05"},
               "destroy": {"C05", "C15"}, "new": {"C05"}, "pid": {"C14"}}


def owners_key(fn, key, exp, obs):
    own = set()
    if key == "r":
        o = obs.get("r")
        alts = exp.get("any") if isinstance(exp, dict) and "any" in exp else [exp]
        if rclass(o) not in {rclass(a) for a in alts} or "einval" in {rclass(o)} | {rclass(a) for a in alts}:
            own.add("C14")
        if fn in ("wait", "stop", "run"):
            if rclass(o) == "ok" or any(rclass(a) == "ok" for a in alts):
                own.add("C01")
            if fn == "stop":
                own.add("C07")
            if fn == "wait" and (o == ETIMEDOUT or ETIMEDOUT in alts):
                own.add("C08")
        if fn in ("read", "write"):
            own |= {"C02"}
            if o == EWOULDBLOCK or EWOULDBLOCK in alts:
                own.add("C17")
        if fn in ("terminate", "kill"):
            own |= {"C06"}
        if fn == "start":
            own |= {"C04"}
            if o == EINVAL or EINVAL in alts:
                own.add("C13")
        if fn in ("drain", "run"):
            own.add("C16")
        if fn == "poll":
            own.add("C09")
        if fn == "pid":
            own.add("C06")
        if fn == "destroy":
            own.add("C15")
        return own or {"C14"}
    if key in ("reap", "st"):
        return {"C01"} | ({"C15", "C05"} if fn in ("destroy", "run") else set())
    if key == "sig":
        return {"C06"} | ({"C07"} if fn == "stop" else set()) | ({"C15"} if fn in ("destroy", "run") else set())
    if key in ("t", "dt"):
        return {"stop": {"C07"}, "wait": {"C08"}, "poll": {"C08"}, "destroy": {"C15"}, "drain": {"C16"}, "run": {"C16"}}.get(fn, {"C17"})
    if key == "blk":
        return {"C17"}
    if key == "mon":
        for m in obs.get("mon", []):
            if m[0] == 8:
                return {"INFRA"}   # a call (form) the simulated kernel does not implement: no verdict, never an alarm
            own |= MON_OWNER.get(m[0], {"C14"})
        return own or {"C14"}
    if key in ("nfd", "nalloc"):
        # the descriptor / allocation count is C05's after destroy (and C04's after a failed start); in between it is
        # part of the state the call's own property predicts (e.g. a stream closed too early)
        return STATE_OWNER.get(fn, {"C14"}) | ({"C05"} if key == "nalloc" else set())
    if key == "left":
        return {"C04", "C05"}
    if key == "rev":
        return {"C09", "C08"}
    if key in ("runs", "bad", "cin"):
        return {"C02"} | ({"C16"} if fn in ("drain", "run") else set())
    if key in ("sinks", "str1", "str2", "dsum", "nest"):
        return {"C16"}
    if key in ("cw", "pp", "cnb"):
        return {"C10"}
    if key == "pnb":
        return {"C17"}
    if key == "cx":
        return {"C11"}
    if key in ("pmask", "pdisp", "pcwd", "penv", "cmask", "cdisp"):
        return {"C12"}
    if key in ("cargv", "cenv", "ccwd", "cprog"):
        return {"C03"} | ({"C04"} if key == "cprog" else set())   # (C04: "if start reports success, the requested program really was executed")
    if key == "created":
        return {"C13"}
    if key in ("cexec", "forks"):
        return {"C04"}
    if key == "probe":
        # the state the previous call left behind is not the one its contract dictates (C14), and it is that call's own
        # property that says what the state should have been
        return {"C14"} | STATE_OWNER.get(fn, set())
    if key == "fchild":
        # what the forked child sees of start / pid / wait / a second start is the handle life cycle (C14); which descriptors it is
        # left with decides whether the parent ever sees end of stream (C02) and is "only the exit handle" (C11); its signal mask
        # is C12's; its own descriptors closed by destroy is a foreign close (C05)
        o = obs.get("fchild") if isinstance(obs.get("fchild"), list) else []
        e = exp if isinstance(exp, list) else []
        diff = {i for i in range(max(len(o), len(e))) if (o[i] if i < len(o) else None) != (e[i] if i < len(e) else None)}
        own = {"C14"}
        if 3 in diff: own |= {"C02", "C11"}
        if 4 in diff: own |= {"C12"}
        if 6 in diff: own |= {"C05"}
        return own
    return {"C14"}


def signature(prop, div):
    """Stable identification of WHAT fails (for known_findings.json): property, call, key, expectation class."""
    call = div.get("call") or {}
    fn = div.get("fn", call.get("fn", "?"))
    args = {k: v for k, v in call.items() if k not in ("e", "fn", "h")}
    obs = div.get("obs") if isinstance(div.get("obs"), dict) else {}
    keys = div.get("keys") or [div.get("key")]
    if div.get("kind") == "optprod":
        return "%s start kind=optprod expect=%s got r=%s created=%s options=%s" % (prop, obs.get("expect"), obs.get("r"), obs.get("created"), json.dumps(args, sort_keys=True, separators=(",", ":")))
    if div.get("kind") == "rejected":
        return "%s %s kind=rejected-by-CoreTrace args=%s at=%s" % (prop, fn, json.dumps(args, sort_keys=True, separators=(",", ":"))[:200],
                                                                  json.dumps(obs.get("rejected_line"), sort_keys=True, separators=(",", ":"))[:300])
    if div.get("kind") == "contract" and div.get("fn") == "anyfault":
        return "%s anyfault why=%s calls=%s fault(kind,index)=%s" % (prop, ",".join(w for w in div.get("why", []) if w.startswith(prop)), json.dumps(call.get("scenario")), json.dumps(call.get("faults")))
    if div.get("kind") == "contract" and div.get("fn") == "wincmd":
        return "%s wincmd why=%s argv=%s cmd=%s" % (prop, ",".join(div.get("why", [])), json.dumps(call.get("argv")), json.dumps(obs.get("cmd")))
    if div.get("kind") == "contract":
        return "%s start kind=contract why=%s scenario=%s faults(side,call,errno)=%s r=%s" % (
            prop, ",".join(w for w in div.get("why", []) if w.startswith(prop)), call.get("scenario"), json.dumps(call.get("faults")), obs.get("r"))
    if div.get("kind") in ("hang", "early"):
        exp = "(returns)" if div.get("kind") == "hang" else "(still blocked)"
        ob = obs.get("blocked_in", obs.get("r"))
    else:
        exp = div.get("exp")
        ob = {k: obs.get(k) for k in keys if k in obs}
    return "%s %s kind=%s keys=%s args=%s exp=%s obs=%s" % (
        prop, fn, div.get("kind"), ",".join(str(k) for k in keys), json.dumps(args, sort_keys=True, separators=(",", ":")),
        json.dumps(exp, sort_keys=True, separators=(",", ":")), json.dumps(ob, sort_keys=True, separators=(",", ":")))


def load_known():
    fn = os.path.join(VERIF, "known_findings.json")
    if not os.path.exists(fn):
        return []
    return json.load(open(fn)).get("findings", [])


def known_match(prop, div, known):
    sig = signature(prop, div)
    for k in known:
        if k.get("status") != "open" or k.get("property") != prop:
            continue
        pat = k.get("match")
        if pat and re.search(pat, sig):
            return k
    return None


def merge_results(a, b):
    """Combine the results of two TLC runs of one family (exhaustive bounded run + random simulation beyond the bounds)."""
    for k in ("scripts", "replayed", "ok", "asan_replayed"):
        a[k] += b[k]
    a["bad"] += b["bad"]
    a["samples"] += b["samples"][:1]
    a.setdefault("simulation", []).append({"module": b.get("module"), "behaviours_exported": b["scripts"], "states_checked": b["tlc"].get("sim_states", 0)})
    return a


def sim_pass(res, name, module, consts, invariants, outdir, tier, num, depth, stride=20, asan_stride=16):
    """Random behaviours of the same model with larger constants (TLC -simulate, seeded): unlike the exhaustive run, whose
    VIEW keeps ONE history per model state, every random walk is a different history - this is what exposes state the code
    keeps but the model (rightly) does not, e.g. something a failed or earlier call left behind."""
    sdir = os.path.join(outdir, "sim")
    os.makedirs(sdir, exist_ok=True)
    cfg = os.path.join(sdir, module + "_sim.cfg")
    write_cfg(cfg, "Spec", consts, invariants, view=None, export_stride=stride)
    # (in simulation mode TLC evaluates the export constraint on EVERY candidate successor of each step, so the sample is
    #  the random walks plus their one-step neighbourhoods; ExportStride thins it, max_scripts bounds it)
    r = run_tlc_export(name + "_sim", module, cfg, sdir, tier, asan_stride=asan_stride, tlc_workers=4,
                       simulate="num=%d" % num, depth=depth, max_scripts=40000 if tier == "quick" else 2000000)
    r["module"] = module
    res.setdefault("simulation_wall_s", round(r["wall_tlc"], 1))
    return merge_results(res, r)


# --------------------------------------------------------------------------------------
# families
# --------------------------------------------------------------------------------------
def fam_stop(tier, outdir):
    consts = {"Handles": "{1}", "MaxTime": 5, "MaxCalls": 4, "PipeCap": 4, "MaxOut": 0, "ExitCodes": "{3}", "TermDelay": 1,
              "DlOpts": "{0, 2}", "Timeouts": "{0, 2}", "MaxStops": 1, "ThirdActs": '"Small"'}
    if tier == "thorough":
        consts.update({"MaxTime": 6, "MaxCalls": 4, "Timeouts": "{0, 2, 3}", "MaxStops": 1})   # (every third action as well: about an hour, three properties run this family)
    cfg = os.path.join(outdir, "MC_Stop.cfg")
    write_cfg(cfg, "Spec", consts, ["TypeOK", "LifeChild", "WaitTruthful", "NoSignalAfterReap", "KfNoSignal"], export_stride=1)
    res = run_tlc_export("stop", "MC_Stop", cfg, outdir, tier, asan_stride=16 if tier == "quick" else 4)
    sc = dict(consts); sc.update({"MaxTime": 8, "MaxCalls": 8, "MaxStops": 5, "Timeouts": "{0, 1, 3}"})
    if tier != "quick":
        sc["ThirdActs"] = '"All"'
    return sim_pass(res, "stop", "MC_Stop", sc, ["TypeOK", "LifeChild"], outdir, tier, 60 if tier == "quick" else 5000, 50, stride=100)


def fam_life(tier, outdir):
    consts = {"Handles": "{1}", "MaxTime": 1, "MaxCalls": 5, "PipeCap": 4, "MaxOut": 2, "ExitCodes": "{3}", "TermDelay": 1,
              "Depth": '"small"'}
    if tier == "thorough":
        consts.update({"MaxCalls": 5, "Depth": '"full"', "MaxTime": 2})   # (6 calls: > 10 M states with the interrupt / descendant actions, does not finish in an hour)
    cfg = os.path.join(outdir, "MC_Life.cfg")
    write_cfg(cfg, "Spec", consts, ["TypeOK", "LifeChild", "Conservation"], props=["LifeOrder"], export_stride=4 if tier == "quick" else 1)
    res = run_tlc_export("life", "MC_Life", cfg, outdir, tier, asan_stride=4 if tier == "quick" else 16, closed_stride=16)
    sc = dict(consts); sc.update({"MaxTime": 4, "MaxCalls": 14, "MaxOut": 8, "Depth": '"full"'})
    return sim_pass(res, "life", "MC_Life", sc, ["TypeOK", "LifeChild", "Conservation"], outdir, tier, 500 if tier == "quick" else 30000, 80, stride=20, asan_stride=4)


def fam_restart(tier, outdir):
    consts = {"Handles": "{1}", "MaxTime": 3, "MaxCalls": 5, "PipeCap": 4, "MaxOut": 0, "ExitCodes": "{3}", "TermDelay": 1}
    if tier == "thorough":
        consts.update({"MaxCalls": 6, "MaxTime": 4})
    cfg = os.path.join(outdir, "MC_Restart.cfg")
    write_cfg(cfg, "Spec", consts, ["TypeOK", "LifeChild"], export_stride=1, view="viewR")
    return run_tlc_export("restart", "MC_Restart", cfg, outdir, tier, asan_stride=8, closed_stride=3)


def fam_drainbig(tier, outdir):
    """Drain around the size of its own read buffer (MC_DrainBig): exactly 4096, 4095, 4097 bytes, then a pause or the end."""
    consts = {"Handles": "{1}", "MaxTime": 1, "MaxCalls": 3, "PipeCap": 8192, "MaxOut": 8193, "ExitCodes": "{3}", "TermDelay": 1}
    if tier == "thorough":
        consts.update({"MaxTime": 2, "MaxOut": 8194})
    cfg = os.path.join(outdir, "MC_DrainBig.cfg")
    write_cfg(cfg, "Spec", consts, ["TypeOK", "LifeChild", "Conservation"], export_stride=1)
    return run_tlc_export("drainbig", "MC_DrainBig", cfg, outdir, tier, asan_stride=4)


def fam_strtwice(tier, outdir):
    """The string sink twice on the caller's same string (MC_StrTwice, history-sensitive view)."""
    consts = {"Handles": "{1}", "MaxTime": 1, "MaxCalls": 4, "PipeCap": 4, "MaxOut": 3, "ExitCodes": "{3}", "TermDelay": 1, "Both": "FALSE"}
    if tier == "thorough":
        consts.update({"MaxTime": 2, "Both": "TRUE"})
    cfg = os.path.join(outdir, "MC_StrTwice.cfg")
    write_cfg(cfg, "Spec", consts, ["TypeOK", "LifeChild", "Conservation"], export_stride=1, view="viewT")
    return run_tlc_export("strtwice", "MC_StrTwice", cfg, outdir, tier, asan_stride=4)


def fam_nest(tier, outdir):
    """Re-entrancy: a sink that drains another child before it looks at its own chunk (MC_Nest)."""
    consts = {"Handles": "{1, 2}", "MaxTime": 0, "MaxCalls": 6, "PipeCap": 4, "MaxOut": 3, "ExitCodes": "{3}", "TermDelay": 1}
    if tier == "thorough":
        consts.update({"MaxOut": 5, "PipeCap": 6})
    cfg = os.path.join(outdir, "MC_Nest.cfg")
    write_cfg(cfg, "Spec", consts, ["TypeOK", "LifeChild"], export_stride=1)
    return run_tlc_export("nest", "MC_Nest", cfg, outdir, tier, asan_stride=4)


def fam_two(tier, outdir):
    consts = {"Handles": "{1, 2}", "MaxTime": 0, "MaxCalls": 6, "PipeCap": 4, "MaxOut": 0, "ExitCodes": "{3}", "TermDelay": 1}
    if tier == "thorough":
        consts.update({"MaxCalls": 8})
    cfg = os.path.join(outdir, "MC_Two.cfg")
    write_cfg(cfg, "Spec", consts, ["TypeOK", "LifeChild", "OwnStatus"], export_stride=1)
    return run_tlc_export("two", "MC_Two", cfg, outdir, tier, asan_stride=8)


def fam_poll(tier, outdir):
    consts = {"Handles": "{1, 2}", "MaxTime": 3, "MaxCalls": 6, "PipeCap": 4, "MaxOut": 1, "ExitCodes": "{3}", "TermDelay": 1,
              "DlOpts": "{0, 2}", "Timeouts": "{0, 2}", "Masks": "{10, 15}", "MaxSrc": 2, "MaxPolls": 1}
    if tier == "thorough":
        consts.update({"Timeouts": "{0, 1, 3}", "Masks": "{2, 10, 15, 0, 31}"})   # (three sources or two polls per behaviour exhaustively: not within the hour; the simulation pass has three sources and up to 6 polls)
    cfg = os.path.join(outdir, "MC_Poll.cfg")
    write_cfg(cfg, "Spec", consts, ["TypeOK", "LifeChild", "PollBounded"], export_stride=10 if tier == "quick" else 1)
    res = run_tlc_export("poll", "MC_Poll", cfg, outdir, tier, asan_stride=16 if tier == "quick" else 32, tlc_workers=10,
                         stride=1)
    sc = dict(consts); sc.update({"MaxTime": 6, "MaxCalls": 12, "MaxPolls": 6, "MaxOut": 4, "Timeouts": "{0, 1, 3}", "Masks": "{2, 10, 15, 0, 31, 16}", "MaxSrc": 3,
                                  "DlOpts": "{0, 2, 3600000, 4295167}"})   # (deadlines of an hour and of more than 2^32 microseconds: any positive value is a deadline)
    return sim_pass(res, "poll", "MC_Poll", sc, ["TypeOK", "LifeChild", "PollBounded"], outdir, tier, 300 if tier == "quick" else 20000, 70, stride=100)


def fam_stream(tier, outdir):
    consts = {"Handles": "{1}", "MaxTime": 0, "MaxCalls": 5, "PipeCap": 4, "MaxOut": 2, "ExitCodes": "{3}", "TermDelay": 1,
              "Inputs": "{99, 0, 3, 5}", "ReadSizes": "{0, 1, 3}", "WriteSizes": "{0, 3, 5}", "DlOpts": "{0}", "Mode": '"io"',
              "SinkFails": "{}", "NbOpts": "{TRUE, FALSE}"}
    if tier == "thorough":
        consts.update({"MaxOut": 3})
    cfg = os.path.join(outdir, "MC_Stream.cfg")
    write_cfg(cfg, "Spec", consts, ["TypeOK", "LifeChild", "Conservation"], export_stride=5 if tier == "quick" else 1)
    res = run_tlc_export("stream", "MC_Stream", cfg, outdir, tier, asan_stride=16 if tier == "quick" else 8, tlc_workers=10,
                         stride=1, closed_stride=8)
    sc = dict(consts); sc.update({"MaxTime": 1, "MaxCalls": 14, "MaxOut": 10})
    return sim_pass(res, "stream", "MC_Stream", sc, ["TypeOK", "LifeChild", "Conservation"], outdir, tier, 400 if tier == "quick" else 30000, 80, stride=20)


def fam_drain(tier, outdir):
    consts = {"Handles": "{1}", "MaxTime": 1, "MaxCalls": 4, "PipeCap": 4, "MaxOut": 3, "ExitCodes": "{3}", "TermDelay": 1,
              "Inputs": "{99}", "ReadSizes": "{}", "WriteSizes": "{}", "DlOpts": "{0, 1}", "Mode": '"drain"',
              "SinkFails": "{1, 3}", "NbOpts": "{TRUE, FALSE}"}
    if tier == "thorough":
        consts.update({"SinkFails": "{1, 2, 3}"})   # (5 calls, 4 bytes, 2 ticks: 10-20 M scripts, hours, since interrupts are modelled; thorough = every script replayed)
    cfg = os.path.join(outdir, "MC_Drain.cfg")
    write_cfg(cfg, "Spec", consts, ["TypeOK", "LifeChild", "Conservation"], export_stride=5 if tier == "quick" else 1)
    return run_tlc_export("drain", "MC_Stream", cfg, outdir, tier, asan_stride=8, tlc_workers=10,
                          stride=1)


def fam_launch(which, tier, outdir):
    consts = {"Family": '"%s"' % which, "StdMode": '"all"' if which == "wiring" else '"open"'}
    stride = 1
    cfg = os.path.join(outdir, "MC_Launch_%s.cfg" % which)
    write_cfg(cfg, "Spec", consts, ["VerdictSane"], view=None, action_constraint=None)
    return run_tlc_export(which, "MC_Launch", cfg, outdir, tier, asan_stride=2, tlc_workers=8)


FAULT_ERRNOS = {1: [24], 2: [4], 3: [4], 4: [4], 5: [4], 6: [22], 7: [24, 13, 4], 8: [4, 24], 9: [11, 12], 10: [4], 11: [1],
                12: [8, 12], 13: [13], 14: [2], 15: [22], 16: [14], 17: [22], 18: [22], 19: [22], 20: [12]}
FK_SIGACTION, FK_SIGMASK, FK_SIGSET = 16, 17, 18


def run_scripts_traced(scripts, outdir, tag, flavor="plain"):
    """Run scripts (python lists) through a driver pool in trace mode; returns the verdicts in input order."""
    exe = vlib.build_driver(flavor)
    n = max(2, min(NCPU - 2, len(scripts) // 50 + 1))
    pool = Pool(exe, n, outdir, tag, env=vlib.ASAN_ENV, args=["--trace"])
    for s in scripts:
        pool.send((json.dumps(s, separators=(",", ":")) + "\n").encode())
    pool.finish()
    out = [None] * len(scripts)
    for k, fn in enumerate(pool.files):
        with open(fn) as fh:
            for line in fh:
                v = json.loads(line)
                out[(v["i"] - 1) * n + k] = v
    return out


def fault_record(idx, scen, faults, fpoints, v):
    """Project one traced execution [new, start(faults), pid, start, destroy] to the record FaultTrace.tla judges."""
    exp = scen[4]
    tr = [t for t in v.get("trace", []) if t.get("e") == "obs"]
    if len(tr) < 5:
        return None
    o_new, o_s1, o_pid, o_s2, o_d = [t["o"] for t in tr[:5]]
    base_fd, base_alloc = o_new["nfd"], o_new["nalloc"]
    wired = 1
    cclean = 1
    launched = 1
    if o_s1["r"] > 0:
        for kx in ("cw", "cx", "pp", "cnb"):
            if kx in exp and o_s1.get(kx) != exp[kx]:
                wired = 0
        for kx in ("cprog", "cargv", "cenv", "ccwd"):
            if kx in exp and o_s1.get(kx) != exp[kx]:
                launched = 0
        if o_s1.get("cmask") != [] or o_s1.get("cdisp") != []:
            cclean = 0
    mon = []
    for t in tr[:5]:
        mon += t["o"].get("mon", [])
    fpoints = o_s1.get("fpoints") or fpoints   # the calls this (faulted) run really made: a fault shifts the later indices
    sigmask_parent = [p for p in fpoints if p[0] == 0 and p[2] == FK_SIGMASK]
    restorer = any(len(sigmask_parent) >= 2 and fl[0] == 0 and fl[1] == sigmask_parent[1][1] for fl in faults)
    kinds = {(p[0], p[1]): p[2] for p in fpoints}
    childsig = any(fl[0] == 1 and kinds.get((1, fl[1])) in (FK_SIGACTION, FK_SIGMASK, FK_SIGSET) for fl in faults)
    return {
        "id": idx, "faults": [[fl[0], fl[1], fl[2]] for fl in faults], "r": o_s1["r"], "forks": o_s1.get("forks", 0), "left": o_s1.get("left", 0),
        "pidr": o_pid["r"], "cexec": o_s1.get("cexec", 0) if o_s1["r"] > 0 else 0, "wired": wired, "launched": launched,
        "dnfd": o_s1["nfd"] - base_fd, "dnalloc": o_s1["nalloc"] - base_alloc,
        "maskok": 1 if o_s1.get("pmask") == exp.get("pmask", []) else 0, "dispok": 1 if o_s1.get("pdisp") == exp.get("pdisp", []) else 0,
        "cwdok": 1 if o_s1.get("pcwd") == exp.get("pcwd", "/w") else 0, "cclean": cclean,
        "r2": o_s2["r"], "dnfd2": o_d["nfd"] - base_fd, "dnalloc2": o_d["nalloc"],
        "left2": o_s2.get("left", 0) + sum(1 for st in o_d.get("st", []) if st[1] != 2),
        "mon": [[m_[0], m_[1]] for m_ in mon], "restorer": restorer, "childsig": childsig,
        # the child's error report (its write to the error pipe) was itself the injected fault: nothing can report that
        "reportfault": any(fl[0] == 1 and kinds.get((1, fl[1])) == 4 for fl in faults),
    }


def fam_faults(tier, outdir):
    """Fault sweep: every libc call a start makes fails once (and in sampled pairs), on both sides of fork."""
    import random
    t0 = time.time()
    # 1. scenarios from TLC (with the wiring each must produce)
    cfg = os.path.join(outdir, "MC_Launch_faultscen.cfg")
    write_cfg(cfg, "Spec", {"Family": '"faultscen"', "StdMode": '"open"'}, ["VerdictSane"], view=None, action_constraint=None)
    meta = os.path.join(outdir, "tlc_meta")
    r = subprocess.run(["java", "-cp", vlib.TLA_CP, "tlc2.TLC", "-workers", "4", "-metadir", meta, "-config", cfg, os.path.join(SPEC, "MC_Launch.tla")],
                       capture_output=True, cwd=SPEC)
    shutil.rmtree(meta, ignore_errors=True)
    scen = [unescape_beh(l + b"\n") for l in r.stdout.splitlines() if l.startswith(b'<<"BEH"')]
    st = parse_tlc_stats(r.stdout.decode("utf8", "replace"))
    if not scen or st["states"] == 0:
        raise Infra("no fault scenarios from TLC:\n" + r.stdout.decode()[-1500:])
    KILLNOW = [[3, -1], [0, 0], [0, 0]]
    for s in scen:
        s[3]["o"]["stop"] = KILLNOW
    # 2. count the fault points of every scenario
    base = run_scripts_traced([[s[0], s[1], s[3]] for s in scen], outdir, "count")
    scripts, meta_l = [], []
    pre_bad = []
    rng = random.Random(SEED)
    for si, (s, b) in enumerate(zip(scen, base)):
        obs = [t for t in b.get("trace", []) if t.get("e") == "obs"]
        if b.get("ok") != 1 or len(obs) < 2:
            raise Infra("fault scenario %d could not be executed: %s" % (si, json.dumps(b)[:800]))
        if obs[1]["o"]["r"] != 1:
            # without any fault the scenario's start must succeed (TLC says so): a divergence like any other, not an infrastructure matter
            pre_bad.append({"ok": 0, "kind": "mismatch", "fn": "start", "keys": ["r"], "key": "r", "call": s[3], "exp": {"r": 1}, "obs": obs[1]["o"],
                            "script": [s[0], s[1], s[3]]})
            continue
        fp = obs[1]["o"]["fpoints"]
        plans = [[[p[0], p[1], e]] for p in fp for e in FAULT_ERRNOS.get(p[2], [5])]
        npairs = (40 if tier == "quick" else 1500)
        for _ in range(npairs):
            a, bb = rng.choice(fp), rng.choice(fp)
            if (a[0], a[1]) != (bb[0], bb[1]):
                plans.append([[a[0], a[1], rng.choice(FAULT_ERRNOS.get(a[2], [5]))], [bb[0], bb[1], rng.choice(FAULT_ERRNOS.get(bb[2], [5]))]])
        for pl in plans:
            st1 = dict(s[3]); st1["faults"] = pl
            scripts.append([s[0], s[1], st1, {"e": "call", "fn": "pid", "h": 1}, s[3], {"e": "call", "fn": "destroy", "h": 1}])
            meta_l.append((si, pl, fp))
    verd = run_scripts_traced(scripts, outdir, "faults")
    averd = run_scripts_traced(scripts[::4 if tier == "quick" else 1], outdir, "faults_asan", flavor="asan")
    # 3. records -> TLC
    recs, bad = [], list(pre_bad)
    for i, (v, (si, pl, fp)) in enumerate(zip(verd, meta_l)):
        if v is None or v.get("ok") != 1:
            d = dict(v or {"kind": "lost"}); d["fn"] = "start"; d["script"] = scripts[i]; d.setdefault("kind", "crash")
            d["call"] = {"fn": "start", "scenario": si, "faults": pl}
            bad.append(d)
            continue
        rec = fault_record(i, scen[si], pl, fp, v)
        if rec is None:
            bad.append({"ok": 0, "kind": "infra", "raw": "short trace", "script": scripts[i]})
            continue
        recs.append(rec)
    for i, v in enumerate(averd):
        if v is None or v.get("ok") != 1:
            d = dict(v or {"kind": "lost"}); d["fn"] = "start"; d["flavor"] = "asan"; d["script"] = scripts[::4 if tier == "quick" else 1][i]; d.setdefault("kind", "crash")
            bad.append(d)
    tracefile = os.path.join(outdir, "faults.ndjson")
    with open(tracefile, "w") as fh:
        for rec in recs:
            fh.write(json.dumps(rec) + "\n")
    env = dict(os.environ); env["TRACE"] = tracefile
    meta = os.path.join(outdir, "tlc_meta_trace")
    r = subprocess.run(["java", "-Xss16m", "-cp", vlib.TLA_CP, "tlc2.TLC", "-workers", "1", "-metadir", meta, "-config", os.path.join(SPEC, "FaultTrace.cfg"),
                        os.path.join(SPEC, "FaultTrace.tla")], capture_output=True, text=True, cwd=SPEC, env=env)
    shutil.rmtree(meta, ignore_errors=True)
    open(os.path.join(outdir, "faulttrace.log"), "w").write(r.stdout)
    st2 = parse_tlc_stats(r.stdout)
    if "No error has been found" not in r.stdout:
        raise Infra("FaultTrace validation did not complete:\n" + r.stdout[-2000:])
    vl = [l for l in r.stdout.splitlines() if l.startswith('<<"VERDICT"')]
    if not vl:
        raise Infra("FaultTrace printed no verdict")
    rejected = unescape_beh((vl[0].replace('<<"VERDICT", "', '<<"BEH", "') + "\n").encode())
    byid = {rec["id"]: rec for rec in recs}
    for rj in rejected:
        rec = byid[rj["id"]]
        si, pl, fp = meta_l[rj["id"]]
        kinds = {(p[0], p[1]): p[2] for p in fp}
        bad.append({"ok": 0, "kind": "contract", "fn": "start", "why": sorted(rj["why"]),
                    "call": {"fn": "start", "scenario": si, "faults": [[fl[0], kinds.get((fl[0], fl[1])), fl[2]] for fl in pl]},
                    "obs": rec, "script": scripts[rj["id"]]})
    return {"family": "faults", "tlc": {"states": st["states"] + st2["states"], "transitions": st["transitions"] + st2["transitions"], "depth": st2["depth"]},
            "scripts": len(scripts), "replayed": len(verd) + len(averd), "ok": len(recs) - len(rejected), "bad": bad,
            "samples": [{"scenario": scen[0][3], "fault_plan": meta_l[0][1], "record": recs[0] if recs else None}], "wall_tlc": time.time() - t0,
            "asan_replayed": len(averd), "replay_stride": 1, "fault_points": sum(len(m_[2]) for m_ in meta_l[:1]), "records_validated_by_tlc": len(recs)}


def fam_wincmd(tier, outdir):
    """C18: enumerate argument vectors / environments, run the real Windows string code, validate every record with TLC."""
    t0 = time.time()
    exe = vlib.build_win()
    modes = [["single", "4"], ["pair", "2"], ["triple", "1"], ["env"], ["envrace"], ["fault"], ["len", "300"], ["random", "400", str(SEED), "120"]]
    if tier == "thorough":
        modes = [["single", "5"], ["pair", "3"], ["triple", "2"], ["env"], ["envrace"], ["fault"], ["len", "1100"], ["random", "4000", str(SEED), "900"]]
    env = dict(os.environ); env.update(vlib.ASAN_ENV)
    shards, bad = [], []
    nrec = 0
    SH = 40000
    cur, curname, curf = 0, None, None
    recs_by_id = {}
    for m in modes:
        p = subprocess.Popen([exe] + m, stdout=subprocess.PIPE, stderr=subprocess.PIPE, env=env)
        for line in p.stdout:
            if curf is None or cur >= SH:
                if curf:
                    curf.close()
                curname = os.path.join(outdir, "win_%03d.ndjson" % len(shards)); shards.append(curname); curf = open(curname, "wb"); cur = 0
            nrec += 1; cur += 1
            line = re.sub(rb'"id":\d+', b'"id":%d' % nrec, line, count=1)
            curf.write(line)
            if nrec % 997 == 1 or nrec <= 3:
                recs_by_id[nrec] = line
        err = p.stderr.read()
        p.wait()
        if p.returncode != 0:
            # sanitizer report / crash inside the Windows string code: a violation (writes past the end, DESIGN 5.6)
            bad.append({"ok": 0, "kind": "crash", "fn": "wincmd", "status": p.returncode, "call": {"fn": "wincmd", "mode": m},
                        "obs": {"stderr": err.decode("utf8", "replace")[-1500:]}, "script": {"mode": m}})
    if curf:
        curf.close()
    # several threads building command lines at once (ThreadSanitizer build): each result must be the one it gives alone
    texe = vlib.build_win(tsan=True)
    te = dict(os.environ); te["TSAN_OPTIONS"] = "exitcode=66 halt_on_error=0"
    try:
        tp = subprocess.run([texe, "threads"], capture_output=True, text=True, env=te, timeout=600)
        trc, tout, terr = tp.returncode, tp.stdout, tp.stderr
    except subprocess.TimeoutExpired as e:
        trc, tout, terr = None, "", "(timeout)"
    nrec += 80000
    if trc != 0:
        bad.append({"ok": 0, "kind": "crash", "fn": "wincmd", "status": trc, "call": {"fn": "wincmd", "mode": ["threads"]},
                    "obs": {"stdout": tout[-300:], "stderr": terr[-1500:]}, "script": {"mode": ["threads"]}})
    procs = []
    for i, sh_ in enumerate(shards):
        e2 = dict(os.environ); e2["TRACE"] = sh_
        meta = os.path.join(outdir, "meta_%d" % i)
        procs.append((sh_, meta, subprocess.Popen(["java", "-Xss256m", "-Xmx3g", "-cp", vlib.TLA_CP, "tlc2.TLC", "-workers", "1", "-metadir", meta, "-config",
                                                  os.path.join(SPEC, "WinCmdLine.cfg"), os.path.join(SPEC, "WinCmdLine.tla")],
                                                 stdout=subprocess.PIPE, stderr=subprocess.STDOUT, cwd=SPEC, env=e2, text=True)))
    states = trans = 0
    rejected = []
    for sh_, meta, p in procs:
        out, _ = p.communicate()
        shutil.rmtree(meta, ignore_errors=True)
        if "No error has been found" not in out:
            raise Infra("WinCmdLine validation failed to complete on %s:\n%s" % (sh_, out[-2000:]))
        st = parse_tlc_stats(out); states += st["states"]; trans += st["transitions"]
        vl = [l for l in out.splitlines() if l.startswith('<<"VERDICT"')]
        if not vl:
            raise Infra("WinCmdLine printed no verdict")
        rejected += unescape_beh((vl[0].replace('<<"VERDICT", "', '<<"BEH", "') + "\n").encode())
    want = {rj["id"] for rj in rejected}
    if want:
        for sh_ in shards:
            with open(sh_) as fh:
                for line in fh:
                    rec = json.loads(line)
                    if rec["id"] in want:
                        recs_by_id[rec["id"]] = rec
    for rj in rejected:
        rec = recs_by_id.get(rj["id"])
        argv = ["".join(chr(c) for c in a) for a in rec["argv"]] if isinstance(rec, dict) else None
        bad.append({"ok": 0, "kind": "contract", "fn": "wincmd", "why": ["C18:" + w for w in sorted(rj["why"])],
                    "call": {"fn": "wincmd", "argv": argv, "envx": rec.get("envx") if isinstance(rec, dict) else None},
                    "obs": {"cmd": "".join(chr(c) for c in rec["cmd"]) if isinstance(rec, dict) else None, "r": rec.get("r") if isinstance(rec, dict) else None},
                    "script": rec})
    for sh_ in shards:
        os.remove(sh_)
    samp = []
    for k in sorted(recs_by_id)[:3]:
        r_ = recs_by_id[k]
        samp.append(json.loads(r_) if isinstance(r_, bytes) else r_)
    return {"family": "wincmd", "tlc": {"states": states, "transitions": trans, "depth": SH}, "scripts": nrec, "replayed": nrec, "ok": nrec - len(rejected),
            "bad": bad, "samples": samp, "wall_tlc": time.time() - t0, "asan_replayed": nrec, "replay_stride": 1}


def fam_conc(tier, outdir):
    """C20: interleavings of two threads' starts at system-call granularity (ConcStart.tla), replayed with coroutines."""
    scens = [1, 2, 4, 5] if tier == "quick" else [1, 2, 3, 4, 5]
    agg = None
    for sc in scens:
        sdir = os.path.join(outdir, "s%d" % sc)
        os.makedirs(sdir)
        # dry run: how many kernel-relevant calls does each thread's sequence make?
        cfg0 = os.path.join(sdir, "dry.cfg")
        write_cfg(cfg0, "Spec", {"N1": 0, "N2": 0, "Scenario": sc}, [], view=None)
        meta = os.path.join(sdir, "m0")
        r = subprocess.run(["java", "-cp", vlib.TLA_CP, "tlc2.TLC", "-workers", "1", "-metadir", meta, "-config", cfg0, os.path.join(SPEC, "ConcStart.tla")],
                           capture_output=True, cwd=SPEC)
        shutil.rmtree(meta, ignore_errors=True)
        # with N1 = N2 = 0 nothing is exported; build the dry script from a one-step model instead
        write_cfg(cfg0, "Spec", {"N1": 1, "N2": 0, "Scenario": sc}, [], view=None)
        r = subprocess.run(["java", "-cp", vlib.TLA_CP, "tlc2.TLC", "-workers", "1", "-metadir", meta, "-config", cfg0, os.path.join(SPEC, "ConcStart.tla")],
                           capture_output=True, cwd=SPEC)
        shutil.rmtree(meta, ignore_errors=True)
        beh = [unescape_beh(l + b"\n") for l in r.stdout.splitlines() if l.startswith(b'<<"BEH"')]
        if not beh:
            raise Infra("ConcStart dry run produced no script:\n" + r.stdout.decode()[-1500:])
        dry = beh[0]
        dry[5] = dict(dry[5]); dry[5]["sched"] = []; dry[5].pop("exp", None)
        v = run_scripts_traced([dry[:6]], sdir, "dry")[0]
        obs = [t for t in (v or {}).get("trace", []) if t.get("e") == "obs" and t["call"].get("e") == "conc"]
        if not obs:
            if v and v.get("ok") == 0 and v.get("kind") in ("crash", "hang", "mismatch"):
                # two plain starts one after the other did not get through: the code's doing, reported like any divergence
                d = dict(v); d["script"] = dry[:6]; d.setdefault("fn", "start"); d.setdefault("call", dry[5])
                if agg is None:
                    agg = {"family": "conc", "tlc": {"states": 0, "transitions": 0, "depth": 0}, "scripts": 1, "replayed": 1, "ok": 0, "bad": [d],
                           "samples": [], "wall_tlc": 0.0, "asan_replayed": 0, "replay_stride": 1}
                else:
                    agg["bad"].append(d)
                continue
            raise Infra("ConcStart dry run failed: %s" % json.dumps(v)[:800])
        n1, n2 = obs[0]["o"]["yields"]
        cfg = os.path.join(sdir, "ConcStart.cfg")
        write_cfg(cfg, "Spec", {"N1": n1, "N2": n2, "Scenario": sc}, ["MergeOK"])
        res = run_tlc_export("conc%d" % sc, "ConcStart", cfg, sdir, tier, asan_stride=10 ** 9, tlc_workers=4)
        res["yield_points"] = [n1, n2]
        if agg is None:
            agg = res
            agg["family"] = "conc"
        else:
            for k in ("scripts", "replayed", "ok", "asan_replayed"):
                agg[k] += res[k]
            agg["bad"] += res["bad"]
            agg["tlc"]["states"] += res["tlc"]["states"]; agg["tlc"]["transitions"] += res["tlc"]["transitions"]
            agg["samples"] += res["samples"][:1]
    return agg


def fam_threads(tier, outdir):
    """C20, the clauses a TLA+ trace cannot express: data races (ThreadSanitizer) and cross-talk under real concurrency."""
    t0 = time.time()
    exe = vlib.build_thr()
    nt, cyc = (8, 40) if tier == "quick" else (16, 300)
    env = dict(os.environ); env["TSAN_OPTIONS"] = "exitcode=66 halt_on_error=0 second_deadlock_stack=1"
    try:
        r = subprocess.run([exe, str(nt), str(cyc)], capture_output=True, text=True, env=env, timeout=240 if tier == "quick" else 1800)
    except subprocess.TimeoutExpired as e:
        # a hang is a failure too; what was printed before it says where (partial output of the killed run)
        dec = lambda b: b.decode("utf-8", "replace") if isinstance(b, bytes) else (b or "")
        r = subprocess.CompletedProcess(e.cmd, None, dec(e.stdout) + "\nFAIL thread=-1 hang (no result within the time limit) 0 0\n", dec(e.stderr))
    bad = []
    if r.returncode != 0:
        out = r.stdout[-1500:] + r.stderr[-2500:]
        fails = [l for l in r.stdout.splitlines() if l.startswith("FAIL")]
        races = sorted({l.split(" in ")[-1].strip() for l in r.stderr.splitlines() if l.startswith("SUMMARY: ThreadSanitizer") and " in " in l})
        bad.append({"ok": 0, "kind": "threads", "fn": "threads", "call": {"fn": "threads", "threads": nt, "cycles": cyc},
                    "obs": {"exit": r.returncode, "fails": sorted(set(" ".join(f.split()[2:4]) for f in fails))[:8], "tsan": "WARNING: ThreadSanitizer" in r.stderr,
                            "races_in": races[:10], "tail": out[-1200:]},
                    "script": {"cmd": [exe, str(nt), str(cyc)]}})
    n = nt * cyc + 1
    return {"family": "threads", "tlc": {"states": 0, "transitions": 0, "depth": 0}, "scripts": n, "replayed": n, "ok": n if not bad else 0, "bad": bad,
            "samples": [{"real_threads": nt, "cycles_each": cyc, "plus": "reader||writer on one child", "sanitizer": "ThreadSanitizer"}],
            "wall_tlc": time.time() - t0, "asan_replayed": 0, "replay_stride": 1}


FREE_OWNERS = {"stop": {"C07", "C01"}, "wait": {"C08", "C01"}, "poll": {"C08", "C09"}, "read": {"C02", "C17"}, "write": {"C02", "C17"},
               "close": {"C02"}, "drain": {"C16"}, "destroy": {"C15", "C05"}, "start": {"C04", "C14"}, "terminate": {"C06"}, "kill": {"C06"},
               "pid": {"C14"}, "new": {"C14"}}


def fam_free(tier, outdir):
    """Trace validation (CoreTrace.tla): random call sequences run against the code over simk in free-running mode;
    every logged step must be a step of Core.tla."""
    import genfree
    t0 = time.time()
    exe = vlib.build_driver("plain")
    aexe = vlib.build_driver("asan")
    per_cap = 250 if tier == "quick" else 8000
    bad, states, trans, nplans, nlines, nstuck = [], 0, 0, 0, 0, 0
    samples = []
    env = dict(os.environ); env.update(vlib.ASAN_ENV)
    for cap in (4, 8, 32, 65536):    # 65536 = the real pipe capacity: payloads up to 1 MiB (16 x capacity)
        ps = genfree.plans(SEED, per_cap if cap < 65536 else per_cap // 2, cap)
        inp = ("\n".join(json.dumps(p, separators=(",", ":")) for p in ps) + "\n").encode()
        traces = []
        for which, ex in (("plain", exe), ("asan", aexe)):
            sub = ps if which == "plain" else ps[::5]
            r = subprocess.run([ex], input=("\n".join(json.dumps(p, separators=(",", ":")) for p in sub) + "\n").encode(), capture_output=True, env=env)
            for ln in r.stdout.decode("utf8", "replace").splitlines():
                v = json.loads(ln)
                if v.get("ok") != 1:
                    v["flavor"] = which; v.setdefault("fn", (v.get("call") or {}).get("fn", "?"))
                    bad.append(v)
                elif which == "plain":
                    traces.append(v["trace"])
                    nstuck += 1 if v.get("stuck") else 0
        nplans += len(ps)
        if not samples and traces:
            samples.append(traces[0][:12])
        # validate, dropping a rejected execution and going on with the rest
        for attempt in range(6):
            tf = os.path.join(outdir, "free_cap%d.ndjson" % cap)
            starts = []
            with open(tf, "w") as fh:
                n = 0
                for tr in traces:
                    starts.append(n + 1)
                    fh.write('{"e":"cfg"}\n'); n += 1
                    for t in tr[1:]:
                        fh.write(json.dumps(t, separators=(",", ":")) + "\n"); n += 1
            cfgp = os.path.join(outdir, "CoreTrace_cap%d.cfg" % cap)
            open(cfgp, "w").write(open(os.path.join(SPEC, "CoreTrace.cfg")).read().replace("PipeCap = 8", "PipeCap = %d" % cap))
            e2 = dict(os.environ); e2["TRACE"] = tf
            meta = os.path.join(outdir, "meta_free")
            r = subprocess.run(["java", "-Xss64m", "-Xmx6g", "-cp", vlib.TLA_CP, "tlc2.TLC", "-workers", "1", "-metadir", meta, "-config", cfgp,
                                os.path.join(SPEC, "CoreTrace.tla")], capture_output=True, text=True, cwd=SPEC, env=e2)
            shutil.rmtree(meta, ignore_errors=True)
            m = re.search(r'<<"MATCHED", (\d+), (\d+)>>', r.stdout)
            if not m or "No error has been found" not in r.stdout:
                raise Infra("CoreTrace validation did not complete:\n" + r.stdout[-2000:])
            st = parse_tlc_stats(r.stdout); states += st["states"]; trans += st["transitions"]
            matched, total = int(m.group(1)), int(m.group(2))
            if matched > total:
                nlines += total
                break
            # the execution containing line `matched` was rejected there
            k = max(i for i, s0 in enumerate(starts) if s0 <= matched)
            tr = traces[k]
            at = matched - starts[k]            # index into tr (tr[0] is the cfg line)
            rec = tr[at] if at < len(tr) else {}
            call = {}
            for t in tr[:at + 1]:
                if t.get("e") == "begin":
                    call = t["call"]
            bad.append({"ok": 0, "kind": "rejected", "fn": call.get("fn", "?"), "call": {kk: vv for kk, vv in call.items() if kk not in ("m", "sched")},
                        "obs": {"rejected_line": rec, "line": at}, "script": ps[[id(x) for x in traces].index(id(tr))] if False else None, "trace": tr, "cap": cap})
            traces.pop(k)
        else:
            # several executions were rejected already: report those; the rest of this shard is not validated in this run
            nlines += 0
    return {"family": "free", "tlc": {"states": states, "transitions": trans, "depth": 0}, "scripts": nplans, "replayed": nplans + nplans // 5, "ok": nplans - len(bad),
            "bad": bad, "samples": samples, "wall_tlc": time.time() - t0, "asan_replayed": nplans // 5, "replay_stride": 1,
            "trace_lines_validated": nlines, "executions_ending_blocked_forever": nstuck}


def fam_wrapper(tier, outdir):
    cfg = os.path.join(outdir, "Wrapper.cfg")
    write_cfg(cfg, "Spec", {}, ["Injective"], view=None, action_constraint=None)
    exe = vlib.build_cxx("asan")
    return run_tlc_export("wrapper", "Wrapper", cfg, outdir, tier, asan_stride=1, tlc_workers=8, exes=(vlib.build_cxx("plain"), exe))


def fam_optprod(tier, outdir):
    """C13 (b): every option record of the full product (3 streams x 72 redirect values, 16 shorthand combinations, input
    forms, fork/argv forms: 95.6 million) judged against the per-stream verdict table exported by TLC from Launch.tla."""
    t0 = time.time()
    cfg = os.path.join(outdir, "tables.cfg")
    write_cfg(cfg, "Spec", {"Family": '"tables"', "StdMode": '"open"'}, ["VerdictSane"], view=None, action_constraint=None)
    meta = os.path.join(outdir, "m")
    r = subprocess.run(["java", "-cp", vlib.TLA_CP, "tlc2.TLC", "-workers", "4", "-metadir", meta, "-config", cfg, os.path.join(SPEC, "MC_Launch.tla")],
                       capture_output=True, cwd=SPEC)
    shutil.rmtree(meta, ignore_errors=True)
    rows = [unescape_beh(l + b"\n") for l in r.stdout.splitlines() if l.startswith(b'<<"BEH"')]
    st = parse_tlc_stats(r.stdout.decode("utf8", "replace"))
    if len(rows) != 3456:
        raise Infra("verdict table incomplete: %d rows\n%s" % (len(rows), r.stdout.decode()[-1000:]))
    table = os.path.join(outdir, "table.txt")
    open(table, "w").write("\n".join(" ".join(str(x) for x in row[1:]) for row in rows) + "\n")
    exe = vlib.build_driver("plain")
    stride = 11 if tier == "quick" else 1
    ns = 16
    procs = [subprocess.Popen([exe, "--optsweep", table, str(i), str(ns), str(stride), str(SEED % stride)], stdout=subprocess.PIPE, text=True) for i in range(ns)]
    bad, records, judged = [], 0, 0
    for p in procs:
        out, _ = p.communicate()
        if p.returncode == 2:
            raise Infra("optsweep failed")
        if p.returncode != 0:
            # the process running the library died in the middle of the sweep (a signal, a sanitizer abort): that is the code's doing
            bad.append({"ok": 0, "kind": "optprod", "fn": "start", "call": {"fn": "start", "optprod": "process died"}, "obs": {"status": p.returncode},
                        "script": {"fn": "start", "optprod": "process died", "status": p.returncode}})
        for ln in out.splitlines():
            try:
                v = json.loads(ln)
            except Exception:
                continue
            if v.get("ok") == 1:
                records += v["records"]; judged += v["judged"]
            else:
                v["call"] = {"fn": "start", "rd": v.get("rd"), "sh": v.get("sh"), "input": v.get("input"), "fork": v.get("fork"), "argvnull": v.get("argvnull")}
                v["obs"] = {"r": v.get("r"), "created": v.get("created"), "expect": v.get("expect")}
                v["script"] = v["call"]
                bad.append(v)
    return {"family": "optprod", "tlc": st, "scripts": judged, "replayed": judged, "ok": judged - len(bad), "bad": bad,
            "samples": [{"table_rows": rows[:3], "records_enumerated": records, "records_judged": judged, "stride": stride}],
            "wall_tlc": time.time() - t0, "asan_replayed": 0, "replay_stride": stride}


def fam_real(tier, outdir):
    """The Launch-family scripts (wiring / env / env2) replayed on the REAL kernel: real descriptors, real fork/exec,
    a real helper child reporting what it was given (harness/real). Same scripts, same expectations as over simk."""
    import tempfile
    t0 = time.time()
    root = tempfile.mkdtemp(prefix="vreal_")
    try:
        rd, vc = vlib.build_real(root)
        vlib.make_real_root(root, vc)
        lines, states = [], 0
        for fam, std in (("wiring", "all"), ("env", "open"), ("env2", "open")):
            cfg = os.path.join(outdir, "real_%s.cfg" % fam)
            write_cfg(cfg, "Spec", {"Family": '"%s"' % fam, "StdMode": '"%s"' % std}, ["VerdictSane"], view=None, action_constraint=None)
            meta = os.path.join(outdir, "m_" + fam)
            r = subprocess.run(["java", "-cp", vlib.TLA_CP, "tlc2.TLC", "-workers", "4", "-metadir", meta, "-config", cfg, os.path.join(SPEC, "MC_Launch.tla")],
                               capture_output=True, cwd=SPEC)
            shutil.rmtree(meta, ignore_errors=True)
            ls = [l for l in r.stdout.splitlines() if l.startswith(b'<<"BEH"')]
            st = parse_tlc_stats(r.stdout.decode("utf8", "replace")); states += st["states"]
            if not ls:
                raise Infra("no scripts for real replay of %s" % fam)
            lines += ls
        nproc = 8
        procs = [subprocess.Popen([rd, root], stdin=subprocess.PIPE, stdout=subprocess.PIPE) for _ in range(nproc)]
        chunks = [b"\n".join(lines[i::nproc]) + b"\n" for i in range(nproc)]
        outs = []
        threads = []
        def feed(p, data, k):
            o, _ = p.communicate(data); outs.append(o)
        for k, (p, c) in enumerate(zip(procs, chunks)):
            th = threading.Thread(target=feed, args=(p, c, k)); th.start(); threads.append(th)
        for th in threads:
            th.join()
        bad, n, skipped = [], 0, 0
        for o in outs:
            for ln in o.decode("utf8", "replace").splitlines():
                v = json.loads(ln); n += 1
                if v.get("ok") == 1:
                    skipped += 1 if v.get("skipped") else 0
                else:
                    bad.append(v)
        if n != len(lines):
            raise Infra("real replay lost scripts: %d of %d" % (n, len(lines)))
        return {"family": "real", "tlc": {"states": states, "transitions": states, "depth": 2}, "scripts": n, "replayed": n - skipped, "ok": n - len(bad), "bad": bad,
                "samples": [unescape_beh(lines[0] + b"\n")], "wall_tlc": time.time() - t0, "asan_replayed": 0, "replay_stride": 1, "skipped_on_real_kernel": skipped}
    finally:
        shutil.rmtree(root, ignore_errors=True)


def fam_realstatus(tier, outdir):
    """C01 on the real kernel: all 256 exit codes and 23 terminating signals with real children; records validated by TLC."""
    import tempfile
    t0 = time.time()
    d = tempfile.mkdtemp(prefix="vrs_")
    try:
        repo = vlib.REPO
        r1 = subprocess.run(["gcc", "-O1", "-w", '-DDUMPDIR="%s"' % d, os.path.join(vlib.HARNESS, "real/vchild.c"), "-o", d + "/vchild"], capture_output=True, text=True)
        r2 = subprocess.run(["gcc", "-std=gnu99", "-O1", "-g", "-DNDEBUG", "-DREPROC_MULTITHREADED", "-w", "-I" + os.path.join(repo, "reproc/include"),
                             "-I" + os.path.join(repo, "reproc/src"), os.path.join(vlib.HARNESS, "real/realstatus.c")] + vlib.lib_sources(repo) +
                            ["-Wl,--wrap=waitpid,--wrap=kill", "-lpthread", "-o", d + "/realstatus"], capture_output=True, text=True)
        if r1.returncode or r2.returncode:
            raise Infra("realstatus does not compile:\n" + r1.stderr[-800:] + r2.stderr[-1500:])
        bad = []
        try:
            p = subprocess.run([d + "/realstatus", d + "/vchild"], capture_output=True, text=True, timeout=300)
            recs = [json.loads(l) for l in p.stdout.splitlines() if l.startswith("{")]
            if p.returncode != 0:
                bad.append({"ok": 0, "kind": "crash", "fn": "wait", "status": p.returncode, "call": {"fn": "wait"}, "obs": {"stderr": p.stderr[-500:]}, "script": None})
        except subprocess.TimeoutExpired:
            recs = []
            bad.append({"ok": 0, "kind": "hang", "fn": "wait", "call": {"fn": "wait", "real": 1}, "obs": {"blocked_in": "real-kernel status sweep timed out"}, "script": None})
        tf = os.path.join(outdir, "realstatus.ndjson")
        open(tf, "w").write("\n".join(json.dumps(r) for r in recs) + "\n")
        states = 0
        if recs:
            env = dict(os.environ); env["TRACE"] = tf
            meta = os.path.join(outdir, "m_rs")
            r = subprocess.run(["java", "-cp", vlib.TLA_CP, "tlc2.TLC", "-workers", "1", "-metadir", meta, "-config", os.path.join(SPEC, "RealStatus.cfg"),
                                os.path.join(SPEC, "RealStatus.tla")], capture_output=True, text=True, cwd=SPEC, env=env)
            shutil.rmtree(meta, ignore_errors=True)
            if "No error has been found" not in r.stdout:
                raise Infra("RealStatus validation did not complete:\n" + r.stdout[-1500:])
            states = parse_tlc_stats(r.stdout)["states"]
            vl = [l for l in r.stdout.splitlines() if l.startswith('<<"VERDICT"')]
            rejected = unescape_beh((vl[0].replace('<<"VERDICT", "', '<<"BEH", "') + "\n").encode())
            byid = {x["id"]: x for x in recs}
            for rj in rejected:
                rec = byid[rj["id"]]
                bad.append({"ok": 0, "kind": "contract", "fn": "wait", "why": ["C01:" + w for w in sorted(rj["why"])] + (["C06:signal-after-reap"] if "signal-after-reap" in rj["why"] else []),
                            "call": {"fn": "wait", "scenario": "real child %s %d" % (rec["kind"], rec["n"]), "faults": []}, "obs": rec, "script": rec})
        return {"family": "realstatus", "tlc": {"states": states, "transitions": states, "depth": len(recs)}, "scripts": len(recs), "replayed": len(recs),
                "ok": len(recs) - len(bad), "bad": bad, "samples": recs[:2], "wall_tlc": time.time() - t0, "asan_replayed": 0, "replay_stride": 1}
    finally:
        shutil.rmtree(d, ignore_errors=True)


def collect_scripts(module, cfgpath, outdir, limit, tlc_workers=4):
    """Run TLC on a Core family and keep up to `limit` exported scripts (as python lists)."""
    meta = os.path.join(outdir, "m_collect")
    cmd = ["java", "-XX:+UseParallelGC", "-Xmx6g", "-cp", vlib.TLA_CP, "tlc2.TLC", "-workers", str(tlc_workers), "-metadir", meta, "-config", cfgpath,
           "-fp", str(SEED % 120), os.path.join(SPEC, module + ".tla")]
    p = subprocess.Popen(cmd, stdout=subprocess.PIPE, stderr=subprocess.STDOUT, cwd=SPEC)
    out = []
    for line in p.stdout:
        if line.startswith(b'<<"BEH"') and line.endswith(b'">>\n'):
            out.append(unescape_beh(line))
            if len(out) >= limit:
                p.kill(); break
    p.wait()
    shutil.rmtree(meta, ignore_errors=True)
    for fpath in glob.glob(os.path.join(SPEC, "*_TTrace_*")):
        os.remove(fpath)
    return out


def fam_anyfault(tier, outdir):
    """A failure injected at EVERY fault point reached by TLC-generated call sequences (any API call; allocations and close
    included), then destroy: records validated by LeakTrace.tla (C05 C06 C14)."""
    t0 = time.time()
    nscripts = 150 if tier == "quick" else 3000
    life_c = {"Handles": "{1}", "MaxTime": 1, "MaxCalls": 6, "PipeCap": 4, "MaxOut": 2, "ExitCodes": "{3}", "TermDelay": 1, "Depth": '"full"'}
    cfg1 = os.path.join(outdir, "af_life.cfg")
    write_cfg(cfg1, "Spec", life_c, [], export_stride=97 if tier == "quick" else 11)
    stream_c = {"Handles": "{1}", "MaxTime": 1, "MaxCalls": 5, "PipeCap": 4, "MaxOut": 3, "ExitCodes": "{3}", "TermDelay": 1, "Inputs": "{99, 3}",
                "ReadSizes": "{1, 3}", "WriteSizes": "{0, 3, 5}", "DlOpts": "{0, 1}", "Mode": '"drain"', "SinkFails": "{2}", "NbOpts": "{TRUE, FALSE}"}
    cfg2 = os.path.join(outdir, "af_drain.cfg")
    write_cfg(cfg2, "Spec", stream_c, [], export_stride=97 if tier == "quick" else 11)
    base = collect_scripts("MC_Life", cfg1, outdir, nscripts) + collect_scripts("MC_Stream", cfg2, outdir, nscripts // 2)
    base = [s for s in base if sum(1 for st in s if st.get("e") == "call") >= 3]
    pre_bad = []
    if len(base) < 20:
        raise Infra("too few base scripts for the fault-anywhere sweep: %d" % len(base))
    def with_cfg(s, g):
        c = dict(s[0]); c["keepgoing"] = 1; c["gfault"] = g
        return [c] + s[1:]
    count = run_scripts_traced_plain([with_cfg(s, 0) for s in base], outdir, "afcount")
    scripts, meta_l = [], []
    for s, v in zip(base, count):
        if not v or not v.get("kg"):
            d = dict(v or {"kind": "lost"}); d.setdefault("kind", "crash"); d["fn"] = "anyfault"; d["script"] = s; d["call"] = {"fn": "anyfault", "gfault": 0}
            pre_bad.append(d)
            continue
        if v.get("hung"):
            continue   # (the sequence ends in a call that never returns: nothing to sweep)
        for g in range(0, v["gcount"] + 1):   # g = 0: no fault at all - the bookkeeping must balance then too
            scripts.append(with_cfg(s, g)); meta_l.append((s, g))
    verd = run_scripts_traced_plain(scripts, outdir, "af")
    averd = run_scripts_traced_plain(scripts[::3], outdir, "af_asan", flavor="asan")
    recs, bad = [], list(pre_bad)
    for i, v in enumerate(verd):
        if not v or not v.get("kg"):
            d = dict(v or {"kind": "lost"}); d.setdefault("kind", "crash"); d["fn"] = "anyfault"; d["script"] = scripts[i]; d["call"] = {"fn": "anyfault", "gfault": meta_l[i][1]}
            bad.append(d); continue
        recs.append({"id": i, "hung": v["hung"], "nfd": v["nfd"], "basefd": 3, "nalloc": v["nalloc"], "mon": v["mon"], "hit": v["hit"], "gkind": v["gkind"],
                     "failed_children_unreaped": v["failed_children_unreaped"], "hitfn": v.get("hitfn", ""), "hitr": v.get("hitr", 0)})
    for i, v in enumerate(averd):
        if not v or not v.get("kg"):
            d = dict(v or {"kind": "lost"}); d.setdefault("kind", "crash"); d["fn"] = "anyfault"; d["flavor"] = "asan"; d["script"] = scripts[::3][i]
            d["call"] = {"fn": "anyfault", "gfault": meta_l[::3][i][1]}
            bad.append(d)
    tf = os.path.join(outdir, "anyfault.ndjson")
    open(tf, "w").write("\n".join(json.dumps(r) for r in recs) + "\n")
    env = dict(os.environ); env["TRACE"] = tf
    meta = os.path.join(outdir, "m_leak")
    r = subprocess.run(["java", "-Xss32m", "-Xmx4g", "-cp", vlib.TLA_CP, "tlc2.TLC", "-workers", "1", "-metadir", meta, "-config", os.path.join(SPEC, "LeakTrace.cfg"),
                        os.path.join(SPEC, "LeakTrace.tla")], capture_output=True, text=True, cwd=SPEC, env=env)
    shutil.rmtree(meta, ignore_errors=True)
    if "No error has been found" not in r.stdout:
        raise Infra("LeakTrace validation did not complete:\n" + r.stdout[-1500:])
    st = parse_tlc_stats(r.stdout)
    vl = [l for l in r.stdout.splitlines() if l.startswith('<<"VERDICT"')]
    rejected = unescape_beh((vl[0].replace('<<"VERDICT", "', '<<"BEH", "') + "\n").encode())
    for rj in rejected:
        rec = recs[[x["id"] for x in recs].index(rj["id"])]
        s, g = meta_l[rj["id"]]
        calls = [st_.get("fn") for st_ in s if st_.get("e") == "call"]
        bad.append({"ok": 0, "kind": "contract", "fn": "anyfault", "why": sorted(rj["why"]), "call": {"fn": "anyfault", "scenario": calls, "faults": [[0, rec["gkind"], g]]},
                    "obs": rec, "script": scripts[rj["id"]]})
    return {"family": "anyfault", "tlc": st, "scripts": len(scripts), "replayed": len(verd) + len(averd), "ok": len(recs) - len(rejected), "bad": bad,
            "samples": [{"base_calls": [st_.get("fn") for st_ in base[0] if st_.get("e") == "call"], "fault_points": count[0]["gcount"]}],
            "wall_tlc": time.time() - t0, "asan_replayed": len(averd), "replay_stride": 1, "base_scripts": len(base), "hung_not_judged": sum(1 for x in recs if x["hung"])}


def run_scripts_traced_plain(scripts, outdir, tag, flavor="plain"):
    """Like run_scripts_traced but without --trace (verdict lines only)."""
    exe = vlib.build_driver(flavor)
    n = max(2, min(NCPU - 2, len(scripts) // 50 + 1))
    pool = Pool(exe, n, outdir, tag, env=vlib.ASAN_ENV)
    for s in scripts:
        pool.send((json.dumps(s, separators=(",", ":")) + "\n").encode())
    pool.finish()
    out = [None] * len(scripts)
    for k, fn in enumerate(pool.files):
        with open(fn) as fh:
            for line in fh:
                v = json.loads(line)
                out[(v["i"] - 1) * n + k] = v
    return out


def fam_cxx(tier, outdir):
    """The drain / run / stop / destroy / stream scripts replayed through reproc++ (process, drain.hpp, run.hpp and the
    destructor) instead of the C API: same TLC-generated scripts, same predictions (harness/cxx/shim.cpp, driver --cxx).
    Scripts using forms without a C++ counterpart (NULL handle, NULL buffer, fork mode, string sink with allocation
    failure, positive sink results, multi-source poll) are skipped and counted."""
    exes = (vlib.build_driver_cxx("plain"), vlib.build_driver_cxx("asan"))
    q = tier == "quick"
    agg = None
    drain_c = {"Handles": "{1}", "MaxTime": 1, "MaxCalls": 4, "PipeCap": 4, "MaxOut": 2 if q else 3, "ExitCodes": "{3}", "TermDelay": 1, "Inputs": "{99}",
               "ReadSizes": "{}", "WriteSizes": "{}", "DlOpts": "{0, 1}", "Mode": '"drain"', "SinkFails": "{2}" if q else "{1, 3}", "NbOpts": "{FALSE}" if q else "{TRUE, FALSE}"}
    run_c = {"Handles": "{1}", "MaxTime": 3, "MaxCalls": 1, "PipeCap": 4, "MaxOut": 2, "ExitCodes": "{3}", "TermDelay": 1, "DlOpts": "{0, 1}",
             "SinkFails": "{1, 3}", "Policies": "{0, 2}" if q else "{0, 1, 2, 3}"}
    jobs = [("cxx_drain", "MC_Stream", drain_c, 3 if q else 1), ("cxx_run", "MC_Run", run_c, 2 if q else 1)]
    if not q:
        jobs += [
            ("cxx_destroy", "MC_Destroy", {"Handles": "{1}", "MaxTime": 5, "MaxCalls": 4, "PipeCap": 4, "MaxOut": 0, "ExitCodes": "{3}", "TermDelay": 1, "DlOpts": "{0, 2}",
                                           "Timeouts": "{0, 2}", "ThirdActs": '"Small"', "StrictFailedStart <- Loose": None}, 1),
            ("cxx_stream", "MC_Stream", {"Handles": "{1}", "MaxTime": 0, "MaxCalls": 5, "PipeCap": 4, "MaxOut": 2, "ExitCodes": "{3}", "TermDelay": 1, "Inputs": "{99, 3, 5}",
                                         "ReadSizes": "{0, 1, 3}", "WriteSizes": "{0, 3, 5}", "DlOpts": "{0}", "Mode": '"io"', "SinkFails": "{}", "NbOpts": "{TRUE, FALSE}"}, 1),
        ]
    for name, module, consts, stride in jobs:
        sdir = os.path.join(outdir, name)
        os.makedirs(sdir)
        cfg = os.path.join(sdir, module + ".cfg")
        write_cfg(cfg, "Spec", consts, ["TypeOK"], export_stride=stride)
        res = run_tlc_export(name, module, cfg, sdir, tier, asan_stride=4, tlc_workers=8, exes=exes, driver_args=["--cxx"])
        if agg is None:
            agg = res; agg["family"] = "cxx"; agg["parts"] = [(name, res["scripts"], res.get("skipped_no_counterpart", 0))]
        else:
            for k in ("scripts", "replayed", "ok", "asan_replayed"):
                agg[k] += res[k]
            agg["bad"] += res["bad"]; agg["samples"] += res["samples"][:1]
            agg["tlc"]["states"] += res["tlc"]["states"]; agg["tlc"]["transitions"] += res["tlc"]["transitions"]
            agg["parts"].append((name, res["scripts"], res.get("skipped_no_counterpart", 0)))
    for b in agg["bad"]:
        b["cxx"] = 1
    return agg


def fam_destroy(tier, outdir):
    consts = {"Handles": "{1}", "MaxTime": 5, "MaxCalls": 4, "PipeCap": 4, "MaxOut": 0, "ExitCodes": "{3}", "TermDelay": 1,
              "DlOpts": "{0, 2}", "Timeouts": "{0, 2}", "ThirdActs": '"Small"', "StrictFailedStart <- Loose": None}
    if tier == "thorough":
        consts.update({"MaxTime": 6, "Timeouts": "{0, 1, 2}"})   # (every third action as well: > 10 M states since interrupts / exit-handle closing are modelled)
    cfg = os.path.join(outdir, "MC_Destroy.cfg")
    write_cfg(cfg, "Spec", consts, ["TypeOK", "LifeChild", "DestroyReleases", "DefaultTermNotEarly"], export_stride=2 if tier == "quick" else 1)
    res = run_tlc_export("destroy", "MC_Destroy", cfg, outdir, tier, asan_stride=16 if tier == "quick" else 4,
                         stride=1, closed_stride=8)
    # liveness under fairness, without VIEW (hist is then part of the state): the default policy terminates
    lcfg = os.path.join(outdir, "MC_Destroy_live.cfg")
    lconsts = dict(consts)
    lconsts.update({"Timeouts": "{0}", "ThirdActs": '"DefaultOnly"', "MaxTime": 4, "DlOpts": "{0, 2}"})
    write_cfg(lcfg, "FairSpec", lconsts, [], view=None, action_constraint=None, props=["DefaultDestroyReturns"], export_stride=1)
    live = run_tlc_plain("destroy_live", "MC_Destroy", lcfg, outdir)
    res["liveness"] = live
    return res


def fam_status(tier, outdir):
    consts = {"Handles": "{1}", "MaxTime": 0, "MaxCalls": 6, "PipeCap": 4, "MaxOut": 0, "ExitCodes": "{" + ", ".join(str(i) for i in range(256)) + "}", "TermDelay": 1,
              "Signals": "{" + ", ".join(str(i) for i in range(1, 32) if i not in (17, 18, 19, 20, 21, 22, 23, 28)) + "}"}
    cfg = os.path.join(outdir, "MC_Status.cfg")
    write_cfg(cfg, "Spec", consts, ["TypeOK", "LifeChild", "Stable"], export_stride=1, view="viewS")
    return run_tlc_export("status", "MC_Status", cfg, outdir, tier, asan_stride=4, stride=1)


def fam_run(tier, outdir):
    consts = {"Handles": "{1}", "MaxTime": 3, "MaxCalls": 1, "PipeCap": 4, "MaxOut": 2, "ExitCodes": "{3}", "TermDelay": 1,
              "DlOpts": "{0, 1}", "SinkFails": "{1, 3}", "Policies": "{0, 1, 2, 3}"}
    if tier == "thorough":
        consts.update({"SinkFails": "{1, 2, 3}", "Policies": "{0, 1, 2, 3, 4}"})   # (longer clock / more output / a third deadline as well: 8 M states, over an hour for C16)
    cfg = os.path.join(outdir, "MC_Run.cfg")
    write_cfg(cfg, "Spec", consts, ["TypeOK", "RunTruthful"], export_stride=2 if tier == "quick" else 1)
    return run_tlc_export("run", "MC_Run", cfg, outdir, tier, asan_stride=8, stride=1)


def run_tlc_plain(name, module, cfgpath, outdir, timeout=1500, workers=8):
    """TLC without export (liveness, pure model properties). Returns the stats; a violated property is an Infra error of the model."""
    meta = os.path.join(outdir, "tlc_meta_" + name)
    shutil.rmtree(meta, ignore_errors=True)
    cmd = ["java", "-XX:+UseParallelGC", "-Xmx8g", "-cp", vlib.TLA_CP, "tlc2.TLC", "-workers", str(workers), "-metadir", meta,
           "-config", cfgpath, os.path.join(SPEC, module + ".tla")]
    try:
        r = subprocess.run(cmd, capture_output=True, text=True, cwd=SPEC, timeout=timeout)
    except subprocess.TimeoutExpired:
        raise Infra("TLC timed out in %s" % name)
    finally:
        shutil.rmtree(meta, ignore_errors=True)
        for f in glob.glob(os.path.join(SPEC, "*_TTrace_*")):
            os.remove(f)
    with open(os.path.join(outdir, name + ".log"), "w") as f:
        f.write(r.stdout)
    st = parse_tlc_stats(r.stdout)
    if "No error has been found" not in r.stdout:
        raise Infra("model property failed or TLC error in %s:\n%s" % (name, r.stdout[-2500:]))
    return st


FAMILIES = {"strtwice": fam_strtwice, "drainbig": fam_drainbig, "nest": fam_nest, "cxx": fam_cxx, "anyfault": fam_anyfault, "realstatus": fam_realstatus, "real": fam_real, "optprod": fam_optprod, "free": fam_free, "env2": lambda t, o: fam_launch("env2", t, o), "two": fam_two, "restart": fam_restart, "threads": fam_threads, "conc": fam_conc, "wincmd": fam_wincmd, "wrapper": fam_wrapper, "faults": fam_faults, "env": lambda t, o: fam_launch("env", t, o), "wiring": lambda t, o: fam_launch("wiring", t, o), "options": lambda t, o: fam_launch("options", t, o),
            "destroy": fam_destroy, "status": fam_status, "run": fam_run, "stop": fam_stop, "life": fam_life, "poll": fam_poll, "stream": fam_stream, "drain": fam_drain}

PROPS = {
    "C01": {"families": ["status", "realstatus", "stop", "two", "anyfault", "free"], "title": "exit status exact, stable, reaped once"},
    "C06": {"families": ["stop", "status", "faults", "restart", "two"], "title": "only the own unreaped child is signalled or waited for"},
    "C07": {"families": ["stop", "threads", "free"], "title": "stop sequences"},
    "C03": {"families": ["env", "env2", "faults", "conc", "real"], "title": "launch fidelity: argv, environment, working directory, program resolution"},
    "C12": {"families": ["env", "env2", "faults", "conc", "threads", "real"], "title": "start leaves the caller untouched and gives the child a clean signal state"},
    "C10": {"families": ["wiring", "restart", "conc", "real"], "title": "each standard stream is connected exactly where the options say"},
    "C11": {"families": ["wiring", "env", "env2", "conc", "real"], "title": "nothing else is inherited"},
    "C13": {"families": ["options", "optprod", "restart", "threads"], "title": "options rejected up front, accepted as documented"},
    "C04": {"families": ["faults", "env", "env2", "wiring", "restart", "conc"], "title": "start is all-or-nothing and reports the real cause"},
    "C05": {"families": ["faults", "anyfault", "wiring", "env", "life"], "title": "no leak, no foreign or double close"},
    "C18": {"families": ["wincmd"], "title": "Windows command line and environment block",
            "level_text": "The real Windows string code (process.windows.c, utf.windows.c, compiled unchanged against a stub windows.h, under ASan+UBSan) is run on an exhaustive bounded enumeration of argument vectors and environments; every record of what the stubbed CreateProcessW received is validated by TLC against spec/WinCmdLine.tla (Split(cmdline) = argv by the documented parsing rules, exact buffer size, environment block layout).",
            "level_note": "Trusted: TLC, the transcription of the documented Windows parsing rules (Split, self-checked on documented examples), the stub windows.h (MultiByteToWideChar maps bytes 1:1: ASCII alphabet only). Windows run-time behaviour is out of reach (DESIGN 8).",
            "technique": "trace validation by TLC: records from the real Windows string code checked against an independent TLA+ transcription of the Windows argument-splitting rules"},
    "C20": {"families": ["conc", "threads"],
            "level_note": "Trusted: TLC, simk, the coroutine scheduler (control changes hands only inside wrapped system calls, which is the library's only interaction point). The data-race clause is not expressible in a TLA+ trace: it is observed by ThreadSanitizer on a real-thread run against the real kernel (family 'threads'), stated as an observation instrument of a different kind.", "title": "documented thread-safety: distinct operations and distinct children race-free"},
    "C19": {"families": ["wrapper"], "title": "reproc++ is a faithful mapping of the C API",
            "level_text": "TLC enumerates the option records, wrapper methods and C return values of spec/Wrapper.tla (every field with several pairwise distinguishable values) and predicts what the C layer must receive and what the wrapper must return; each point is executed through the real reproc++ sources over a recording mock of the C API and compared.",
            "technique": "TLA+ mapping model (Wrapper.tla) enumerated by TLC; every point replayed through reproc++ over a mock C API (conformance)"},
    "C14": {"families": ["life", "restart", "faults", "env", "free"], "title": "life cycle; misuse errors, never UB"},
    "C02": {"families": ["stream", "drainbig", "threads", "free"], "title": "stream fidelity"},
    # (thorough: the destroy scripts also run through the C++ destructor in C16's cxx family)
    "C15": {"families": ["destroy", "restart", "threads", "free"], "title": "destroy applies the stop policy"},
    "C16": {"families": ["drain", "drainbig", "strtwice", "run", "nest", "cxx", "free"], "title": "drain and run"},
    "C17": {"families": ["stream", "wiring", "threads", "free"], "title": "nonblocking never blocks; blocking waits only for the child"},
    "C08": {"families": ["poll", "restart", "threads", "free"], "title": "deadlines and timeouts bound every wait and poll"},
    "C09": {"families": ["poll", "stream", "anyfault", "threads", "free"], "title": "poll reports exactly the true events"},
}

NOT_APPLICABLE = {}

LEVEL_TEXT = ("TLC exhaustively explores the bounded contract model (every interleaving of child, clock and caller within the "
              "stated constants) and checks the property's invariants on it; every call-completing transition of that state "
              "graph is exported as a script and replayed against the library built from /repo's working tree over a simulated "
              "kernel, comparing each call's observation with the model's prediction.")


def run_check(prop, tier):
    if prop not in PROPS:
        raise Infra("no check registered for %s" % prop)
    t0 = time.time()
    outdir = os.path.join(OUT, prop, tier)
    shutil.rmtree(outdir, ignore_errors=True)
    os.makedirs(outdir)
    # TLC leaves a scratch directory per run in java.io.tmpdir: keep them inside this check's own output directory and remove them
    jtmp = os.path.join(outdir, "jtmp")
    os.makedirs(jtmp)
    os.environ["JAVA_TOOL_OPTIONS"] = "-Djava.io.tmpdir=" + jtmp
    known = load_known()
    results = []
    try:
        for fam in PROPS[prop]["families"]:
            fdir = os.path.join(outdir, fam)
            os.makedirs(fdir)
            results.append(FAMILIES[fam](tier, fdir))
    finally:
        shutil.rmtree(jtmp, ignore_errors=True)
        os.makedirs(jtmp, exist_ok=True)   # (the replay confirmations of conclude() may still start a TLC)
    try:
        return conclude(prop, tier, results, known, outdir, t0)
    finally:
        shutil.rmtree(jtmp, ignore_errors=True)


def conclude(prop, tier, results, known, outdir, t0):
    viol = []
    foreign = 0
    known_seen = {}
    infra = []
    model_viol = []
    for res in results:
        if res["tlc"].get("invariant_violated"):
            model_viol.append((res["family"], res["tlc"]["invariant_violated"]))
        for d in res["bad"]:
            own = owners(d) | FAMILY_EXTRA_OWNERS.get(res["family"], set())
            if res["family"] == "restart" and (d.get("fn") in ("read", "write", "poll", "close") or set(d.get("keys") or []) & {"nfd", "probe", "mon"}):
                own |= {"C10"}   # which pipe ends the parent holds after the second start is the wiring contract's, whatever the first attempt left
            if res["family"] == "restart" and isinstance(d.get("script"), list) and any(
                    isinstance(st, dict) and st.get("e") == "ret" and st.get("r") == EINVAL for st in d["script"][:6]):
                own |= {"C13"}   # the failed attempt of this behaviour was a refusal of the options: "refused with no side effect"
            if d.get("fn") in ("wait", "stop", "destroy") and isinstance(d.get("obs"), dict) and d["obs"].get("reap") and isinstance(d["obs"].get("r"), int) and d["obs"]["r"] < 0 \
                    and isinstance(d.get("exp"), dict) and isinstance(d["exp"].get("r"), int) and d["exp"]["r"] >= 0:
                own |= {"C06"}   # the child was reaped but the call reports failure: the handle goes on treating a reaped process as its unreaped child
            if res["family"] in ("drainbig", "drain") and "dsum" in (d.get("keys") or []) and isinstance(d.get("obs"), dict) and isinstance(d.get("exp"), dict):
                try:
                    if d["obs"].get("r") == 0 and any(o_[1] < e_[1] for o_, e_ in zip(d["obs"]["dsum"], d["exp"]["dsum"])):
                        own |= {"C02"}   # the drain said "both streams have ended" before all of a stream's data was delivered
                except Exception:
                    pass
            if res["family"] == "conc" and "/nonexistent" in json.dumps(d.get("call") or {}):
                own |= {"C04"}   # the scenario in which one of the concurrent starts must fail with "no such program" and the other must run its own
            if d.get("kind") == "early" and d.get("fn") in ("wait", "stop") and isinstance(d.get("obs"), dict) and isinstance(d["obs"].get("r"), int) and d["obs"]["r"] >= 0:
                own |= {"C01"}   # an exit status was reported while the child had not ended
            if res["family"] == "env" and isinstance(d.get("script"), list) and d["script"] and isinstance(d["script"][0], dict) and d["script"][0].get("limit") == -1:
                own |= {"C11"}   # the refusal to start under an unlimited descriptor table exists because the child could not sweep it
            if res["family"] in ("env", "env2") and "r" in (d.get("keys") or []) and isinstance(d.get("obs"), dict) and (d["obs"].get("r") == -2 or (isinstance(d.get("exp"), dict) and d["exp"].get("r") == -2)):
                own |= {"C03"}   # the requested program was not found where the contract says it is: program resolution
            if "INFRA" in own:
                infra.append(d)
                continue
            # no divergence is ever dropped: if none of the properties that own it runs this family, every property that
            # does run the family reports it
            runners = {p for p, v in PROPS.items() if res["family"] in v["families"]}
            if not (own & runners):
                own |= runners
            if prop not in own:
                foreign += 1
                continue
            k = known_match(prop, d, known)
            if k:
                known_seen.setdefault(k["id"], [k, 0])[1] += 1
            else:
                viol.append((res["family"], d))
    if infra:
        print("INFRA: %d scripts could not be executed, e.g. %s" % (len(infra), json.dumps(infra[0])[:600]), file=sys.stderr)
        return 2
    if model_viol:
        # the specification itself violates one of its invariants: an error of the machinery, never an alarm
        print("INFRA: model invariant violated: %s" % model_viol, file=sys.stderr)
        return 2
    # group violations by signature, write replay files
    groups = {}
    for fam, d in viol:
        groups.setdefault(signature(prop, d), []).append((fam, d))
    replay_paths = []
    rdir = os.path.join(OUT, prop, "replay")
    shutil.rmtree(rdir, ignore_errors=True)
    if groups:
        os.makedirs(rdir)
    confirmed = 0
    for n, (sig, items) in enumerate(sorted(groups.items(), key=lambda kv: -len(kv[1]))):
        # candidates to re-run: one per family first (the same signature can come from a family where it only shows as a
        # leftover of an EARLIER script of the batch, and from one where the script itself is enough), then a few more
        cands, seen_f = [], set()
        for it in items:
            if it[0] not in seen_f:
                seen_f.add(it[0]); cands.append(it)
        step_ = max(1, len(items) // 12)
        cands += [it for it in items[::step_][:14] if it not in cands]   # (spread over the group, not its first few)
        fam, d = cands[0]
        path = os.path.join(rdir, "v%03d.json" % n)
        def dump(fam_, d_):
            with open(path, "w") as f:
                json.dump({"property": prop, "family": fam_, "signature": sig, "count": len(items), "divergence": d_,
                           "script": d_.get("script")}, f)
        dump(fam, d)
        if n < 25:
            # report only what an immediate re-run repeats (guards against the environment, DESIGN 5.8)
            if d.get("script") is not None and d.get("kind") not in ("contract", "threads", "rejected", "optprod") and d.get("fn") != "wincmd":
                repeated = False
                for fam_, d_ in cands[:16]:
                    dump(fam_, d_)
                    if replay(path, quiet=True) != 0:
                        repeated = True; fam, d = fam_, d_
                        break
                if not repeated:
                    continue
            if d.get("kind") == "contract" and d.get("fn") not in ("wincmd", "anyfault", "wait") and n < 6 and not recheck_contract(d, os.path.join(OUT, prop, "recheck")):
                continue
            confirmed += 1
            print("VIOLATION property=%s replay=%s" % (prop, path))
            print("  what: %s  (x%d)" % (sig[:400], len(items)))
        replay_paths.append(path)
    for kid, (k, cnt) in sorted(known_seen.items()):
        print("KNOWN-FINDING: property=%s %s  [%s, seen %d times]" % (prop, k["what"], kid, cnt))
    tlc_states = sum(r["tlc"]["states"] for r in results)
    tlc_trans = sum(r["tlc"]["transitions"] for r in results)
    replayed = sum(r["replayed"] for r in results)
    samples = []
    for r in results:
        samples += r["samples"][:2]
    ev = {
        "property_id": prop, "tier": tier, "seed": SEED, "level": "model_checking",
        "coverage": {
            "states": tlc_states, "transitions": tlc_trans, "traces_validated_against_impl": replayed,
            "samples": samples or ["(none)"],
            "exhaustive": all(not r.get("simulated") for r in results),
            "families": [{"family": r["family"], "states": r["tlc"]["states"], "transitions": r["tlc"]["transitions"],
                          "depth": r["tlc"]["depth"], "scripts_exported": r["scripts"], "replays": r["replayed"],
                          "replays_sanitized": r["asan_replayed"], "replays_ok": r["ok"], "replay_stride": r["replay_stride"],
                          "divergences": len(r["bad"])} for r in results],
            "foreign_divergence": foreign,
            "known_findings_seen": {k: v[1] for k, v in known_seen.items()},
            "violation_signatures": len(groups),
        },
        "assumptions": ["simk (harness/simk.c) is a faithful model of the POSIX calls the library makes",
                        "environment steps only at blocking points and between calls (DESIGN 3.2)",
                        "TLC and the CommunityModules Json module"],
        "wall_s": round(time.time() - t0, 1),
        "violations": confirmed,
    }
    os.makedirs(vlib.EVIDENCE, exist_ok=True)
    with open(os.path.join(vlib.EVIDENCE, prop + ".json"), "w") as f:
        json.dump(ev, f, indent=1)
    print("%s %s: states=%d transitions=%d replayed=%d violations=%d known=%d foreign=%d wall=%.0fs" % (
        prop, tier, tlc_states, tlc_trans, replayed, confirmed, len(known_seen), foreign, time.time() - t0))
    return 1 if confirmed else 0


def recheck_contract(d, outdir):
    """Re-run one faulted start and re-evaluate the contract on its record (deterministic; guards the environment)."""
    shutil.rmtree(outdir, ignore_errors=True)
    os.makedirs(outdir)
    v = run_scripts_traced([d["script"]], outdir, "re")[0]
    if v is None or v.get("ok") != 1:
        return True
    tr = [t for t in v.get("trace", []) if t.get("e") == "obs"]
    old = d.get("obs", {})
    for key, idx in (("r", 1), ("r2", 3)):
        if len(tr) > idx and tr[idx]["o"]["r"] != old.get(key):
            return False
    return True


def replay(path, quiet=False):
    d = json.load(open(path))
    if d.get("divergence", {}).get("kind") == "contract":
        ok = recheck_contract(d["divergence"], os.path.join(OUT, "_replay"))
        if not quiet:
            print(json.dumps({"kind": "contract", "why": d["divergence"].get("why"), "reproduced": ok}))
        return 1 if ok else 0
    script = d.get("script")
    if script is None:
        print("replay file has no script")
        return 2
    flavor = d.get("divergence", {}).get("flavor", "plain")
    exe = vlib.build_driver("asan" if flavor == "asan" else "plain")
    env = dict(os.environ)
    env.update(vlib.ASAN_ENV)
    if flavor == "closedstd":
        env["VERIF_CLOSED_STD"] = "1"
    p = subprocess.run([exe], input=(json.dumps(script) + "\n").encode(), capture_output=True, env=env)
    out = p.stdout.decode("utf8", "replace").strip()
    try:
        v = json.loads(out.splitlines()[-1])
    except Exception:
        v = {"ok": 0, "kind": "garbled", "raw": out[:300]}
    if not quiet:
        v.pop("script", None)
        print(json.dumps(v)[:3000])
        if p.stderr:
            print(p.stderr.decode("utf8", "replace")[-3000:])
    return 0 if v.get("ok") == 1 else 1


def setup():
    os.makedirs(OUT, exist_ok=True)
    bad = 0
    for f in sorted(glob.glob(os.path.join(SPEC, "*.tla"))):
        r = subprocess.run(["java", "-cp", vlib.TLA_CP, "tla2sany.SANY", f], capture_output=True, text=True, cwd=SPEC)
        if r.returncode != 0 or "Semantic errors" in r.stdout or "Parse Error" in r.stdout or "Fatal errors" in r.stdout:
            print("SANY failed on %s\n%s" % (f, r.stdout[-1500:]))
            bad += 1
    subprocess.run(["gcc", "-fsyntax-only", "-I", vlib.HARNESS, os.path.join(vlib.HARNESS, "json.c")], check=False)
    print("setup: %d spec modules parsed, %d failures" % (len(glob.glob(os.path.join(SPEC, "*.tla"))), bad))
    return 2 if bad else 0


def fidelity():
    """Run harness/fidelity.c on the real kernel and on simk and compare the transcripts (trusted-base self-test)."""
    import tempfile
    H = vlib.HARNESS
    d = tempfile.mkdtemp(prefix="fid_")
    try:
        wl = ["-Wl,--wrap=" + s for s in vlib.wrap_syms()]
        for args in (["gcc", "-O1", "-g", "-w", H + "/fidelity.c", "-o", d + "/real"],
                     ["gcc", "-O1", "-g", "-w", "-DSIMK", "-I" + H, H + "/fidelity.c", H + "/simk.c"] + wl + ["-o", d + "/sim"]):
            r = subprocess.run(args, capture_output=True, text=True)
            if r.returncode:
                raise Infra("fidelity build failed:\n" + r.stderr[-2000:])
        a = subprocess.run([d + "/real"], capture_output=True, text=True, stdin=subprocess.DEVNULL).stdout.splitlines()
        b = subprocess.run([d + "/sim"], capture_output=True, text=True, stdin=subprocess.DEVNULL).stdout.splitlines()
        diff = [(x, y) for x, y in zip(a, b) if x != y]
        for x, y in diff:
            print("DIFFERS real: %s\n        simk: %s" % (x, y))
        ok = not diff and len(a) == len(b) and len(a) > 10
        json.dump({"lines": len(a), "identical": ok, "transcript": a}, open(os.path.join(VERIF, "selftest_fidelity.json"), "w"), indent=1)
        print("fidelity: %d lines, %s" % (len(a), "identical" if ok else "DIFFERENT"))
        return 0 if ok else 1
    finally:
        shutil.rmtree(d, ignore_errors=True)


def baseline():
    import tempfile
    d = tempfile.mkdtemp(prefix="reproc_base_")
    try:
        r = subprocess.run("cmake -G Ninja -S %s -B %s -DCMAKE_BUILD_TYPE=RelWithDebInfo -DREPROC_TEST=ON >/dev/null && cmake --build %s >/dev/null && ctest --test-dir %s -j8 --timeout 900" % (vlib.REPO, d, d, d), shell=True)
        return r.returncode
    finally:
        shutil.rmtree(d, ignore_errors=True)
