"""Seeded generator of free-running plans for trace validation against Core.tla (CoreTrace.tla)."""
import random

ACTS = [0, 1, 2, 3, 7]
TOS = [0, 1, 3, -1, -2]


def triple(rng):
    def act():
        a = rng.choice(ACTS)
        return [a, 0 if a in (0, 7) else rng.choice(TOS)]
    return [act(), act(), act()]


def gen_plan(rng, cap, termdelay=2):
    steps = [{"e": "cfg", "cap": cap, "free": 1}]
    nh = rng.choice([1, 1, 1, 2])
    started = {}
    for h in range(1, nh + 1):
        steps.append({"e": "call", "fn": "new", "h": h})
    for h in range(1, nh + 1):
        dl = rng.choice([0, 0, 3, 8, 20])
        nb = rng.random() < 0.5
        rerr = rng.choice([0, 1, 1, 4, 3])
        rin = rng.choice([0, 0, 0, 3])
        inp = -1 if rin else rng.choice([-1, -1, -1, 0, max(1, cap // 2), cap, cap + 1])
        term = rng.choice([0, 1, 2])
        stop = triple(rng) if rng.random() < 0.7 else [[0, 0], [0, 0], [0, 0]]
        sched, has_exit = [], False
        for _ in range(rng.randint(0, 7)):
            k = rng.choice(["out", "out", "err", "cread", "cclose", "exit", "cclosex", "out", "eintr"])
            if k == "exit":
                if has_exit:
                    continue
                has_exit = True
                a = rng.choice([0, 1, 7, 255])
            elif k in ("out", "err", "cread"):
                a = rng.choice([1, 2, cap // 2 or 1, cap - 1, cap, cap + 3])
            elif k == "cclose":
                a = rng.choice([0, 1, 2])
            elif k == "eintr":
                a = 0
                if rng.random() < 0.5:
                    continue
            else:
                a = 1
                if rng.random() < 0.8:
                    continue  # rare
            if k == "exit" and rng.random() < 0.25:
                # the child ends but a descendant keeps its descriptors for a while
                sched.append([rng.randint(0, 4), "exitg", a])
                sched.append([rng.randint(0, 6), "ggone", 1])
                break
            sched.append([rng.randint(0, 4), k, a])
            if k == "exit":
                break
        if not has_exit and rng.random() < 0.6:
            sched.append([rng.randint(0, 6), "exit", rng.choice([0, 3])])
        m = {"dl": dl, "stop": stop, "nb": nb, "rin": rin, "rout": 0, "rerr": rerr, "input": inp, "term": term, "self": True, "prog": "/bin/c"}
        steps.append({"e": "call", "fn": "start", "h": h, "argv": ["/bin/c"], "noargv": 0, "term": term, "termdelay": termdelay,
                      "o": {"dl": dl, "stop": stop, "nb": 1 if nb else 0, "rin": rin, "rout": 0, "rerr": rerr, "input": inp}, "sched": sched, "m": m})
        started[h] = m
    for _ in range(rng.randint(3, 14)):
        h = rng.randint(1, nh)
        k = rng.choice(["poll", "poll", "read", "read", "write", "close", "wait", "wait", "terminate", "kill", "stop", "pid", "sleep", "sleep", "drain", "start"])
        if k == "drain" and cap > 4096:
            k = "read"   # (the number of sink calls depends on drain's internal buffer size; only exercised with small pipes)
        if k == "poll":
            n = rng.choice([1, 1, 2, 3])
            src = [[rng.choice([0] + list(range(1, nh + 1))), rng.choice([2, 6, 8, 10, 15, 1, 0, 31])] for _ in range(n)]
            steps.append({"e": "call", "fn": "poll", "h": 0, "src": src, "to": rng.choice([0, 1, 2, 5, -1])})
        elif k == "read":
            steps.append({"e": "call", "fn": "read", "h": h, "s": rng.choice([1, 1, 2]), "n": rng.choice([1, 2, cap - 1, cap, cap + 1, 2 * cap, 16 * cap]), "nullbuf": 0})
        elif k == "write":
            steps.append({"e": "call", "fn": "write", "h": h, "n": rng.choice([0, 1, cap // 2 or 1, cap - 1, cap, cap + 1, cap + 2, 3 * cap, 16 * cap]), "nullbuf": 0})
        elif k == "close":
            steps.append({"e": "call", "fn": "close", "h": h, "s": rng.choice([0, 0, 1, 2])})
        elif k == "wait":
            steps.append({"e": "call", "fn": "wait", "h": h, "to": rng.choice([0, 1, 3, 6, -2, -1])})
        elif k in ("terminate", "kill", "pid"):
            steps.append({"e": "call", "fn": k, "h": h})
        elif k == "stop":
            steps.append({"e": "call", "fn": "stop", "h": h, "a": triple(rng)})
        elif k == "sleep":
            steps.append({"e": "call", "fn": "sleep", "d": rng.randint(1, 5)})
        elif k == "drain":
            f1 = rng.choice([0, 0, 0, 1, 2, 4]); f2 = 0 if f1 else rng.choice([0, 0, 2])
            steps.append({"e": "call", "fn": "drain", "h": h, "sinks": [["rec", f1, -5 if f1 else 0], ["rec", f2, 9 if f2 else 0]]})
        elif k == "start" and rng.random() < 0.3:
            m = started[h]
            steps.append({"e": "call", "fn": "start", "h": h, "argv": ["/bin/c"], "noargv": 0, "term": m["term"], "termdelay": termdelay,
                          "o": {"dl": m["dl"], "stop": m["stop"], "nb": 1 if m["nb"] else 0, "rin": m["rin"], "rout": 0, "rerr": m["rerr"], "input": m["input"]},
                          "sched": [], "m": m})
    for h in range(1, nh + 1):
        steps.append({"e": "call", "fn": "destroy", "h": h})
    return steps


def plans(seed, n, cap):
    rng = random.Random(seed * 1000003 + cap)
    return [gen_plan(rng, cap) for _ in range(n)]
