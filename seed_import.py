#!/usr/bin/env python3
"""seed_import.py <Pxx> <k> <results.json> [<source dir> [<id> [<results of the earlier version of the checks>]]]
— keep a confirmed seeded change under seeded/<id>/ (default <Pxx>-<k>; patch.diff, the demonstration, meta.json) and
regenerate seeded/README.md."""
import json, os, shutil, sys, glob

# seeded changes that a first version of the checks did NOT catch, and what was strengthened for each (DESIGN 0.5)
MISSED_AT_FIRST = {
 "C09-1": "the simulated kernel reported POLLOUT|POLLERR for a full pipe whose reader had gone (Linux: POLLERR alone); simk corrected, poll-for-IN added to the stream family, stream family added to C09",
 "C10-1": "user handles / FILEs that are themselves descriptors 1 or 2 were not enumerated; added to the wiring family",
 "C15-2": "the leak showed at the failed start's return (owned by C04/C05) and the replay stopped there; in the destroy family a failed start is now judged after destroy",
 "C04-1": "a handle naming a CLOSED standard descriptor was not enumerated; added (expected: EBADF, nothing left behind)",
 "C04-2": "all failed starts lead to one model state and TLC kept one history for it; MC_Restart with a history-sensitive view (plus simulation passes and the free family) added",
 "C05-1": "caught by C10's wiring family only; the wiring family was added to C05",
 "C05-2": "caught by C04 only; the 'child left behind' clause of FaultTrace now also carries the C05 label",
 "C16-2": "the library's string sink was not modelled; added with initial content and allocation failure at growth step k",
 "C01-1": "the change calls usleep(), which the seam did not cover (infrastructure error, no verdict); sleep/nanosleep now wait in virtual time, and a child that closes its exit handle but lives on (ChildCloseX) was added to the model",
 "C01-2": "caught by C06 (waitpid(-1) monitor) only: the simulated kernel refused waitpid(-1) instead of emulating it; it now reaps some zombie as Linux does, so the stolen status shows; two-handle family MC_Two added",
 "C03-1": "the allocation kept in a static cache differed first (allocation count) and ended the script before the second start; allocation-count differences no longer end a script; family env2 (caller changes cwd/env/limit between two starts) added",
 "C11-2": "the change lists /proc/self/fd with opendir/readdir, which the seam did not cover (infrastructure error); added to the seam; the interleaving family added to C11",
 "C20-1": "fcntl(F_SETFD) was not a yield point, so the pipe()/FD_CLOEXEC window was never interleaved with another thread's fork; divergences during interleaved calls were attributed to the inner call's property",
 # round 3 (changes that need a history, a timing window, a fault at one point, an option combination or concurrency);
 # "missed" = measured with the checks as they were before the round (commit 6c12a46 of /verif)
 "C02-3": "an interrupted system call was not an event of the model; Interrupt (EINTR while a call is blocked) added to Core, simk and the stream/poll/stop/life/drain/run/destroy families and to the free-running mode",
 "C02-4": "fork mode was not part of the stream family and nothing looked at the forked child's descriptor table; fork variant added to MC_Stream, the number of descriptors above 2 the forked child holds is now part of the observation (fchild)",
 "C06-3": "a child that has ended while a descendant of it still holds the exit handle was not an environment behaviour; ChildExitG / GrandGone added (model, simk, fidelity scenario), Hup now means 'exit handle hung up'",
 "C08-3": "the restart family (failed start, then a start with other options) was registered for C04 only; added to C08 and C15",
 "C08-4": "needs an interrupted poll: Interrupt added (see C02-3)",
 "C09-4": "the real-thread program never called reproc_poll; it now polls (single-source form, per-thread interests) and drains; the threads family was added to C09 and its divergences are attributed to C09 when they concern poll",
 "C14-4": "needs an interrupted reap (Interrupt added) AND a look at the handle after a call whose contract is 'nothing changes': the exploration keeps one history per model state and continued from another one; every script now ends with a probe (zero-timeout poll on every started handle), and a descriptor-count difference no longer ends a script",
 "C15-3": "restart family added to C15 (see C08-3)",
 "C10-3": "what a failed start leaves in the handle was looked at by C04/C08/C15 only; the restart family (failed start, then a start with other redirects, then read/poll/destroy) now also runs under C10, with divergences on stream calls attributed to it",
 "C12-4": "the signal mask is per thread, the interleaving family had one mask for the process; each coroutine now has its own mask (swapped with the context) which must be unchanged when its call has returned; the real-thread program checks the same; both families added to C12",
 "C13-4": "needs two threads with different shorthands; the real-thread program now gives its threads different valid options and lets some of them make requests that must be rejected; a data race or a wrong verdict in option parsing is attributed to C13, the threads family added to C13; a hang of that program is reported with what it printed before",
 "C16-4": "a sink that re-enters the library was not modelled; MC_Nest added (a sink that drains another child before it looks at its own chunk)",
 # round 4 (a different site and a different way of manifesting than the four already collected for the property)
 "C01-6": "a death with and without the core-dump flag is ONE model state, so TLC kept one history (without the flag); MC_Status now keeps the environment records of the history apart in its view",
 "C02-6": "caught by C20's thread program only; cross-talk / races in read, write and drain are now attributed to C02 too and the threads family runs under C02",
 "C03-5": "needs two threads inside start at once with different extra environments; each coroutine of the interleaving family now gives its child an environment entry of its own (children's environment and the caller's own compared), family added to C03",
 "C03-6": "a fault that start SURVIVES was accepted whatever was launched; FaultTrace now requires program, arguments, environment and directory to be the requested ones (clause for C03 and C04), faults family added to C03",
 "C04-6": "the caller itself ran the child branch: seen as a crash of the driver and attributed to C05/C14 only; a crash inside a call is now also attributed to that call's own property",
 "C05-6": "the leak shows in the env family (deep working directory), which C05 did not run; added",
 "C06-6": "getpgid was outside the seam (infrastructure error, no verdict); process-group calls are now part of it, every simulated child is the leader of its own group, kill(-pid) is flagged",
 "C09-6": "the window between hang-up and reapability exists in the simulated kernel only for a child that closes its exit handle and lives on; that behaviour added to the poll family; a timed-out zero-timeout wait after hang-up is attributed to C09",
 "C13-5": "0 meant 'no FILE given' in the model, so a FILE on descriptor 0 could not be written; F0 added (wiring and options families, simulated and real kernel)",
 "C16-5": "needs a read that fills drain's whole 4 KiB buffer; MC_DrainBig added (8 KiB pipe, volumes 4095/4096/4097, pause or end, deadlines)",
 "C16-6": "the driver made a fresh string for every drain; it now keeps the caller's string and shortens it in place between drains; MC_StrTwice (history-sensitive view) added; a violation signature is now confirmed through ANY of its instances (the first instance came from a family where it only showed as a leftover of an earlier script of the batch, was not repeated alone, and the whole group was dropped)",
 "C17-5": "nonblocking mode of the parent's pipe ends was not observed in the launch families; pnb added (wiring family with nonblocking x shorthands, simulated and real kernel), wiring family under C17",
 "C17-6": "pthread mutex calls were outside the seam (infrastructure error); allowed through; the deadlock shows as a hang of the reader||writer round of the thread program, attributed to C17, threads family under C17",
 "C18-5": "needs threads; the Windows string driver got a threaded mode under ThreadSanitizer (four threads, different command lines, each result compared with the single-threaded one)",
 "C20-5": "caught by C02/C11/C14 (descriptors of the fork-mode child) but C20's families had no fork mode; scenario 4 of the interleaving family: the second thread starts a fork-mode child",
 "C20-6": "the shared-child round of the thread program read with reproc_read only; a second round reads with reproc_drain while the writer pauses",
 # round 5 (clause by clause, untouched functions, boundary values, unusual environments)
 "C02-7": "shows only for a caller running without two of its standard descriptors; the behavioural families assumed all three open; every k-th script of the stream, restart and life families is now also replayed by a caller whose stdin and stdout are closed (same predictions, descriptor count offset)",
 "C04-8": "caught by C03 (wrong program executed) but the key was not attributed to C04; 'the requested program really was executed' is C04's clause too",
 "C07-8": "needs kill() to fail; a child that cannot be signalled (EPERM) added to the model, the simulated kernel and the stop family: the failed action's error ends the sequence",
 "C10-7": "the simulated FILE for descriptors 0-2 was a stand-in object, so code comparing against stdin/stdout/stderr never matched; the harness now passes the C library's own objects",
 "C12-7": "signal() / __sysv_signal() were outside the seam (infrastructure error) and only the kind of a disposition was observed; flags and mask of the caller's handlers are now tracked (a handler whose flags or mask changed is reported as a different disposition), start-up input with handlers installed added to the env family",
 "C13-8": "only positive out-of-range redirect types were enumerated; negative ones added (late rejection allowed, success or another error is not)",
 "C15-7": "the destroy family had no fork mode; added (the forked child destroys its copy and lives on)",
 "C18-8": "no start under a failing allocation or with unconvertible input was enumerated for the Windows code; 'fault' mode added (k-th allocation fails, invalid UTF-8): no process may be created, a surviving start must pass exactly what was asked",
 # round 6
 "C02-9": "an empty start-up input (size 0, data given) was not enumerated; added to the stream family",
 "C03-9": "no program was missing under the PARENT's directory while present under the child's; a caller's directory /x without the relative programs added (simulated and real file tree)",
 "C03-10": "parent environment entries a shell would not create (no '=', leading '=') were not enumerated; added",
 "C04-9": "a failed start was always followed by another start, never by destroy directly; added to the restart family",
 "C05-10": "the forked child opened nothing of its own before destroying its copy of the handle; it now does, and the descriptors must survive (fchild[7]); fchild is attributed per component",
 "C06-10": "detected in tens of thousands of scripts, but every instance first tried for confirmation owed the stale errno to an EARLIER script of its batch; errno is now cleared at the start of every script and confirmation candidates are spread over the group",
 "C07-9": "caught only as a data race under C20; races in reproc_stop / parse_stop_actions are attributed to C07 too, threads family under C07",
 "C12-10": "no relative redirect path together with a child working directory from a directory too deep to chdir back into; added (the caller's directory afterwards is compared); getcwd(NULL, n) was an unsupported form of the simulated kernel - supported now, and unsupported forms are infrastructure errors instead of verdicts",
 "C14-9": "the memory error shows in the env family (deep directories), which C14 did not run; added",
 "C15-9": "deadlines were a few ticks; a deadline an hour away (beyond 2^31 microseconds) added to the destroy family",
 "C15-10": "the destroy family always piped stdin/stdout and assumed the caller's standard descriptors open; a variant with nothing piped added, and the family is also replayed by a caller without stdin/stdout",
 "C18-9": "the stub converted bytes to UTF-16 units one to one, so bytes and units never differed; real UTF-8 decoding in the stub, two-byte sequences in the enumerations, WinCmdLine decodes likewise",
 "C19-9": "the mock never answered 'interrupted'; -4 added to the C return values (a wrapper that retries shows as a different result)",
 "C19-10": "conversions were always used at once; a reproc::arguments held while its source container is overwritten and cleared added",
 "C11-10": "the change lists /proc/self/fd with open + the raw getdents64 system call; syscall() was outside the seam (infrastructure error, no verdict) and no configuration had the > 168 open descriptors it needs; open/getdents64 on the descriptor directory are now emulated and the wiring family has a caller with 230 further inheritable descriptors",
 "C02-11": "caught by the large-transfer drain family (owned by C16) only; that family is now also run by C02, and a drain that reports both streams ended while bytes of one were never delivered is C02's as well",
 "C03-11": "no environment or argument entry was longer than a few bytes; entries of 32 KiB, 40000 and 70000 bytes added (run tokens in the script language)",
 "C03-12": "the child's working directory was not among the expectations of the fault-sweep scenarios (a faulted chdir that is ignored went unnoticed), and no start named a directory that cannot be entered; both added, for exec and for fork mode",
 "C04-11": "caught by the interleaving family only (not run by C04); it is now, and its scenario with one failing start is attributed to C04 as well",
 "C04-12": "no fork-mode start had a child-side failure; fork mode with a missing / non-directory working directory added",
 "C06-12": "the change uses waitid(), which was outside the seam (infrastructure error, no verdict); waitid is emulated now (incl. CLD_DUMPED and WNOWAIT), the status family (signals with and without core flag) is run by C06 too, and a wait that reaps yet reports failure is attributed to C06",
 "C08-11": "no deadline beyond a few ticks except in the destroy family; deadlines of an hour and of more than 2^32 microseconds added to the restart family and to the poll simulation pass",
 "C09-12": "no interest mask had the deadline bit without the exit bit; added (output + deadline, deadline alone)",
 "C10-11": "no descriptor number reached 1024; a caller with a full table below 1040 added (the library's own pipes and a user handle on 1050 are all beyond a select-style set)",
 "C11-11": "the change uses fexecve(), which was outside the seam (infrastructure error, no verdict); emulated now",
 "C12-11": "no caller mask contained the synchronously raised signals (ILL BUS FPE SEGV) or was 'everything'; both added",
 "C13-12": "a refused start was only followed by pid(); the restart family now has a refusal (with and without a deadline) as one of the failed attempts, is run by C13, and behaviours whose failed attempt was a refusal are attributed to C13",
 "C17-11": "the stream family had no child that ends while a descendant keeps its streams (exit status collected, streams still open); added for one start option",
 "C19-11": "start() was never given a null argument vector; added (it must stay start(): fork = false, argv passed on as it is)",
 "C01-13": "no child was ever stopped; a stopped (and later continued) child added to the status family, the simulated waitpid reports it to a waiter that asks (WUNTRACED); an exit status reported while the child has not ended is attributed to C01",
 "C01-14": "a reap that fails with 'no child' was never injected; the fault-anywhere sweep now fails waitpid with ECHILD every other time and requires that the wait / stop it strikes reports an error, never a status; that family is run by C01",
 "C02-13": "pipes in packet mode (pipe2 with O_DIRECT) behaved like ordinary pipes in the simulated kernel; packet mode implemented (a read takes one packet, the rest of it is gone)",
 "C02-14": "found by the free-running mode only, where the rejection was attributed to the stop properties; the stream family now has a stop followed by reads",
 "C03-13": "the change uses fchdir() and opens a directory: both outside the seam (infrastructure error, no verdict); emulated now, and the env family's working-directory points are also taken by a caller without stdin / stdout",
 "C05-13": "the fault sweep's scenarios all had the caller's standard descriptors open; those that open files of their own are now also run without stdin",
 "C08-13": "a race on a process-wide clock sample: only the thread test sees it, and C08 did not run it; it does now (races in clock / deadline code are attributed to C08)",
 "C09-14": "an allocation failure inside poll was injected (fault-anywhere sweep) but only the bookkeeping was judged; the call struck by the fault and its result are now recorded and a poll must answer 'out of memory'; family run by C09",
 "C10-13": "no stream was given by its member only next to a shorthand; added to the wiring family",
 "C10-14": "the change uses stat(), outside the seam (infrastructure error, no verdict), and no path named a FIFO; stat family emulated, a FIFO path added for every stream (simulated kernel only)",
 "C11-13": "no descriptor beyond 4096 exists in the simulated kernel; what IS covered is the refusal under an unlimited table, which the change turns into a clamp - found by the env family, now run by and attributed to C11",
 "C11-14": "every inherited descriptor had a live peer; a hung-up pipe end added to the caller's descriptors (sim and real)",
 "C12-13": "no caller ignored SIGCHLD; added (program found / missing), with the kernel's own reaping emulated - the expected result of the failing start is then 'no child', as on the real kernel",
 "C14-13": "caught by the restart family only; it is now run by C14 and its behaviours are attributed to C14 too",
 "C15-13": "a race on a static copy of the stop actions: only the thread test sees it, and C15 did not run it; it does now",
 "C16-13": "the run family had no discarding sinks on piped streams; added",
 "C17-14": "the change uses fcntl(F_SETPIPE_SZ), an unsupported form in the simulated kernel (infrastructure error, no verdict); supported now (growing beyond the system maximum is refused)",
 "C19-13": "the C++-only `timeout` member was never set; added (it must reach no C option)",
 "C19-14": "every wrapper point was a single call and the mock accepted a missing handle; a second start after a refused one added, and the mock answers a NULL handle like the C API",
 "C20-14": "the thread test asked for the texts of known error values only; values the system has no message for added",
 "C18-10": "missed at first and for all of the first session (needs another thread changing the parent's environment block between two snapshots inside one start); caught since the `envrace` mode of the Windows driver serves a parent block that grows at every snapshot a start takes (ASan: write past the end of the block buffer)",
}


def imp(pid, k, resfile, src=None, key=None, earlier=None):
    src = src or "/tmp/mut/%s/MUTANT%s" % (pid, k)
    key = key or "%s-%s" % (pid, k)
    dst = "/verif/seeded/%s" % key
    res = json.load(open(resfile))
    if not (res.get("demo_clean_exit") == 0 and res.get("demo_mutant_exit") not in (0, None) and res.get("suite_passes")):
        print("NOT CONFIRMED", pid, k, res.get("demo_clean_exit"), res.get("demo_mutant_exit"), res.get("suite_passes")); return
    os.makedirs(dst, exist_ok=True)
    for f in os.listdir(src):
        if f in ("demo_bin",) or os.path.isdir(os.path.join(src, f)) and f == "build":
            continue
        s = os.path.join(src, f)
        if os.path.isdir(s):
            shutil.copytree(s, os.path.join(dst, f), dirs_exist_ok=True)
        else:
            shutil.copy(s, dst)
    readme = open(os.path.join(src, "README.txt")).read() if os.path.exists(os.path.join(src, "README.txt")) else ""
    meta = {"id": key, "breaks_property": pid, "written_by": "independent sub-agent given only the property text and a scratch worktree",
            "needs_to_manifest": readme.strip()[:1500],
            "confirmed": {"demo_on_clean_tree_exit": res["demo_clean_exit"], "demo_on_changed_tree_exit": res["demo_mutant_exit"],
                          "repository_suite_passes_with_change": res["suite_passes"], "diffstat": res.get("diffstat")},
            "checks_run": {p: {"detected": c["detected"], "exit": c["exit"], "wall_s": c["wall_s"], "first_violation": (c["first"][1].strip()[:400] if len(c["first"]) > 1 else "")}
                           for p, c in res.get("checks", {}).items()},
            "how_run": "python3 mutcheck.py <dir> <properties>: scratch worktree of /repo HEAD, git apply patch.diff, run.sh on clean and changed tree, cmake+ctest on the changed tree, check.py check <P> --tier quick with VERIF_REPO=<changed tree>"}
    if earlier and os.path.exists(earlier):
        old = json.load(open(earlier))
        meta["checks_run_before_strengthening"] = {p: {"detected": c2["detected"], "exit": c2["exit"]} for p, c2 in old.get("checks", {}).items()}
    if key in MISSED_AT_FIRST:
        meta["missed_at_first"] = MISSED_AT_FIRST[key]
    json.dump(meta, open(os.path.join(dst, "meta.json"), "w"), indent=1)
    print("kept", dst)

def readme():
    rows = []
    for m in sorted(glob.glob("/verif/seeded/*/meta.json")):
        d = json.load(open(m))
        det = [p for p, c in d["checks_run"].items() if c["detected"]]
        miss = [p for p, c in d["checks_run"].items() if not c["detected"]]
        note = ("missed at first: " + d["missed_at_first"]) if d.get("missed_at_first") else ""
        rows.append("| %s | %s | %s | %s | %s |" % (d["id"], d["breaks_property"], ", ".join(det) or "-", ", ".join(miss) or "-", note))
    with open("/verif/seeded/README.md", "w") as f:
        f.write("# Seeded changes\n\nEach directory holds `patch.diff` (never applied to /repo itself), the sub-agent's demonstration (`demo.*`, `run.sh <tree>`), and `meta.json`.\n"
                "All were confirmed: the demonstration passes on the clean tree and fails on the changed tree, and the repository's own test-suite still passes with the change.\n\n"
                "| change | written against | caught by (quick tier) | not caught by | note |\n|---|---|---|---|---|\n" + "\n".join(rows) + "\n")

if __name__ == "__main__":
    if len(sys.argv) >= 4:
        a = sys.argv[1:] + [None] * 3
        imp(a[0], a[1], a[2], a[3], a[4], a[5])
    readme()
