#!/usr/bin/env python3
"""seed_import.py <Pxx> <k> <results.json> [<earlier results.json>]  — keep a confirmed seeded change under seeded/<Pxx>-<k>/
(patch.diff, the demonstration, meta.json) and regenerate seeded/README.md."""
import json, os, shutil, sys, glob

def imp(pid, k, resfile, earlier=None):
    src = "/tmp/mut/%s/MUTANT%s" % (pid, k)
    dst = "/verif/seeded/%s-%s" % (pid, k)
    res = json.load(open(resfile))
    if not (res.get("demo_clean_exit") == 0 and res.get("demo_mutant_exit") not in (0, None) and res.get("suite_passes")):
        print("NOT CONFIRMED", pid, k, res.get("demo_clean_exit"), res.get("demo_mutant_exit"), res.get("suite_passes")); return
    os.makedirs(dst, exist_ok=True)
    for f in os.listdir(src):
        if f in ("demo_bin",) or os.path.isdir(os.path.join(src, f)) and f == "build":
            continue
        s = os.path.join(src, f)
        if os.path.isdir(s):
            shutil.copytree(s, os.path.join(dst, f), dirs_exist_ok=True)
        else:
            shutil.copy(s, dst)
    readme = open(os.path.join(src, "README.txt")).read() if os.path.exists(os.path.join(src, "README.txt")) else ""
    meta = {"id": "%s-%s" % (pid, k), "breaks_property": pid, "written_by": "independent sub-agent given only the property text and a scratch worktree",
            "needs_to_manifest": readme.strip()[:1500],
            "confirmed": {"demo_on_clean_tree_exit": res["demo_clean_exit"], "demo_on_changed_tree_exit": res["demo_mutant_exit"],
                          "repository_suite_passes_with_change": res["suite_passes"], "diffstat": res.get("diffstat")},
            "checks_run": {p: {"detected": c["detected"], "exit": c["exit"], "wall_s": c["wall_s"], "first_violation": (c["first"][1].strip()[:400] if len(c["first"]) > 1 else "")}
                           for p, c in res.get("checks", {}).items()},
            "how_run": "python3 mutcheck.py <dir> <properties>: scratch worktree of /repo HEAD, git apply patch.diff, run.sh on clean and changed tree, cmake+ctest on the changed tree, check.py check <P> --tier quick with VERIF_REPO=<changed tree>"}
    if earlier and os.path.exists(earlier):
        e = json.load(open(earlier))
        meta["first_round"] = {p: {"detected": c["detected"]} for p, c in e.get("checks", {}).items()}
    json.dump(meta, open(os.path.join(dst, "meta.json"), "w"), indent=1)
    print("kept", dst)

def readme():
    rows = []
    for m in sorted(glob.glob("/verif/seeded/*/meta.json")):
        d = json.load(open(m))
        det = [p for p, c in d["checks_run"].items() if c["detected"]]
        miss = [p for p, c in d["checks_run"].items() if not c["detected"]]
        first = d.get("first_round", {})
        note = ""
        if first and any(not v["detected"] for v in first.values()) and det:
            note = "missed at first by %s; caught after strengthening" % ",".join(p for p, v in first.items() if not v["detected"])
        rows.append("| %s | %s | %s | %s | %s |" % (d["id"], d["breaks_property"], ", ".join(det) or "-", ", ".join(miss) or "-", note))
    with open("/verif/seeded/README.md", "w") as f:
        f.write("# Seeded changes\n\nEach directory holds `patch.diff` (never applied to /repo itself), the sub-agent's demonstration (`demo.*`, `run.sh <tree>`), and `meta.json`.\n"
                "All were confirmed: the demonstration passes on the clean tree and fails on the changed tree, and the repository's own test-suite still passes with the change.\n\n"
                "| change | written against | caught by (quick tier) | not caught by | note |\n|---|---|---|---|---|\n" + "\n".join(rows) + "\n")

if __name__ == "__main__":
    if len(sys.argv) >= 4:
        imp(sys.argv[1], sys.argv[2], sys.argv[3], sys.argv[4] if len(sys.argv) > 4 else None)
    readme()
