#!/usr/bin/env python3
"""check.py — orchestrator for the /verif checks.

  check.py check <Cxx> [--tier quick|thorough]   run one property's check, write evidence/<Cxx>.json
  check.py replay <file>                          re-execute a replay file and print the verdict
  check.py setup                                  parse every spec module, warm nothing that depends on /repo
  check.py baseline                               build /repo in a scratch dir (guard off) and run its tests

Exit status: 0 = property held on everything explored (KNOWN-FINDING lines allowed),
1 = violation (a line `VIOLATION property=<id> replay=<path>`), 2 = infrastructure failure.
"""
import argparse
import json
import os
import sys
import time

sys.path.insert(0, os.path.dirname(os.path.abspath(__file__)))
import vlib
from vlib import Infra
import families


def main():
    ap = argparse.ArgumentParser()
    sub = ap.add_subparsers(dest="cmd", required=True)
    c = sub.add_parser("check")
    c.add_argument("prop")
    c.add_argument("--tier", default=os.environ.get("VERIF_TIER", "quick"), choices=["quick", "thorough"])
    r = sub.add_parser("replay")
    r.add_argument("file")
    sub.add_parser("setup")
    sub.add_parser("baseline")
    sub.add_parser("fidelity")
    a = ap.parse_args()
    try:
        if a.cmd == "check":
            sys.exit(families.run_check(a.prop, a.tier))
        if a.cmd == "replay":
            sys.exit(families.replay(a.file))
        if a.cmd == "setup":
            sys.exit(families.setup())
        if a.cmd == "baseline":
            sys.exit(families.baseline())
        if a.cmd == "fidelity":
            sys.exit(families.fidelity())
    except Infra as e:
        print("INFRA: %s" % e, file=sys.stderr)
        sys.exit(2)


if __name__ == "__main__":
    main()
