/* driver — executes scripts (one JSON array per input line) against the reproc API
 * linked over simk, compares each call's observation with the prediction carried in
 * the script, and prints one verdict line per script.  See DESIGN.md 4.3, Appendix B.
 *
 *   vdrv [--trace] [--nofork] < scripts.ndjson > verdicts.ndjson
 */
#define _GNU_SOURCE
#include <errno.h>
#include <fcntl.h>
#include <poll.h>
#include <signal.h>
#include <stdio.h>
#include <stdlib.h>
#include <string.h>
#include <sys/mman.h>
#include <sys/wait.h>
#include <ucontext.h>
#include <unistd.h>

#include <reproc/drain.h>
#include <reproc/reproc.h>
#include <reproc/run.h>

#include "json.h"
#include "simk.h"

extern int sk_cur;
extern int sk_interrupt;
extern void sk_ledger_reset(void);
extern pid_t __real_fork(void);
extern pid_t __real_waitpid(pid_t, int *, int);
extern void __real__exit(int) __attribute__((noreturn));
extern ssize_t __real_write(int, const void *, size_t);
extern char **environ;

/* --cxx: the same scripts through reproc++ (harness/cxx/shim.cpp) */
static int opt_cxx;
#ifdef WITH_CXX
extern void *cxx_new(void); extern void cxx_destroy(void *);
extern int cxx_start(void *, const char *const *, reproc_options), cxx_pid(void *), cxx_wait(void *, int), cxx_terminate(void *), cxx_kill(void *);
extern int cxx_stop(void *, reproc_stop_actions), cxx_close(void *, int), cxx_read(void *, int, uint8_t *, size_t), cxx_write(void *, const uint8_t *, size_t);
extern int cxx_poll1(void *, int, int, int *), cxx_drain(void *, reproc_sink, reproc_sink), cxx_run(const char *const *, reproc_options, reproc_sink, reproc_sink);
extern int cxx_drain_string(void *, char **, int, reproc_sink);
#else
#define cxx_new() NULL
#define cxx_destroy(p) ((void) 0)
#define cxx_start(p, a, o) 0
#define cxx_pid(p) 0
#define cxx_wait(p, t) 0
#define cxx_terminate(p) 0
#define cxx_kill(p) 0
#define cxx_stop(p, s) 0
#define cxx_close(p, s) 0
#define cxx_read(p, s, b, n) 0
#define cxx_write(p, b, n) 0
#define cxx_poll1(p, i, t, e) 0
#define cxx_drain(p, o, e) 0
#define cxx_run(a, o, x, y) 0
#define cxx_drain_string(p, s, u, o) 0
#endif
static void skip_script(const char *why);

#define MAXH 5
static reproc_t *H[MAXH];
static int Hpid[MAXH];          /* sim pid of the child started for handle h (0 = none) */
static int pending_term[MAXH];
static long woff[MAXH];         /* stdin bytes accepted so far (parent -> child) */
static long coff[MAXH][3];      /* bytes the child wrote so far with tag 1 / 2 */
static long roff[MAXH][3];      /* bytes delivered to the parent per tag */
static int rbad;                /* pattern discontinuity seen in this call */

static jv *script;
static int pos;                 /* next step */
static int opt_trace, opt_nofork;
static int log_mark;            /* K->nlog at the start of the current call */
static int t_call;
static struct { int i, step, kind; } *progress; /* shared with the supervising parent */

static char outbuf[1 << 20];

/* ---------- verdict output ---------- */
static void emit(jv *v)
{
  size_t n = j_print(v, outbuf, sizeof outbuf - 2);
  outbuf[n++] = '\n';
  size_t off = 0;
  while (off < n) { ssize_t w = __real_write(1, outbuf + off, n - off); if (w <= 0) break; off += (size_t) w; }
}
static void emit_and_exit(jv *v)
{
  emit(v);
  __real__exit(10); /* tells the supervisor: verdict written, continue with the next script */
}

static jv *verdict_base(int ok)
{
  jv *v = j_mkobj();
  j_put(v, "i", j_mkint(progress->i));
  j_put(v, "ok", j_mkint(ok));
  return v;
}

static jv *cur_call;
static jv *cur_keys;
static int keep_going;   /* fault-anywhere sweep: do not compare, never stop; only the final bookkeeping is judged */
static int in_conc;
static jv *soft_div;      /* an allocation-count-only difference seen earlier in this script */
static int nfd_bias;      /* standard descriptors the caller runs without (VERIF_CLOSED_STD), added back to the descriptor count */
static int kept_ledger;   /* library allocations the driver keeps on the caller's behalf between calls (string sinks) */
static int soft_offset, soft_offset_fd;
static jv *trace;  /* array of observed records when --trace */

static void diverge(const char *kind, const char *key, jv *exp, jv *obs)
{
  jv *v = verdict_base(0);
  j_put(v, "kind", j_mkstr(kind));
  j_put(v, "step", j_mkint(pos));
  if (cur_call) { j_put(v, "fn", j_mkstr(j_str(cur_call, "fn", "?"))); j_put(v, "call", cur_call); }
  if (key) j_put(v, "key", j_mkstr(key));
  if (cur_keys) j_put(v, "keys", cur_keys);
  if (in_conc) j_put(v, "conc", j_mkint(1));   /* found while (or right after) two threads' calls were interleaved */
  if (soft_div) j_put(v, "also", soft_div);
  if (exp) j_put(v, "exp", exp);
  if (obs) j_put(v, "obs", obs);
  if (trace) j_put(v, "trace", trace);
  j_put(v, "script", script);
  emit_and_exit(v);
}

/* ---------- environment steps ---------- */
static int child_of(int h)
{
  if (h <= 0 || h >= MAXH) return -1;
  if (!Hpid[h]) {
    /* reproc_run: the handle is internal; the child is the process forked during the call made for index h */
    for (int i = 1; i < SK_MAXPROC; i++)
      if (K->proc[i].state != PS_FREE && K->proc[i].handle == h) { Hpid[h] = K->proc[i].pid; K->proc[i].term = pending_term[h]; }
    if (!Hpid[h]) return -1;
  }
  return sk_proc_by_pid(Hpid[h]);
}

static void apply_env(jv *s)
{
  const char *k = j_str(s, "k", "");
  int h = (int) j_int(s, "h", 1);
  int p = child_of(h);
  if (!strcmp(k, "adv")) { K->now += (int) j_int(s, "d", 1); return; }
  if (!strcmp(k, "eintr")) { sk_interrupt = 1; return; }
  if (p < 0 && keep_going) return;
  if (p < 0) diverge("badenv", k, s, NULL);
  if (!strcmp(k, "out") || !strcmp(k, "err")) {
    int tag = k[0] == 'o' ? 1 : 2;
    int n = (int) j_int(s, "n", 1);
    int r = sk_child_write(p, tag, n, tag, &coff[h][tag]);
    if (r != n && !keep_going) { jv *o = j_mkint(r); diverge("envfail", k, s, o); }
  } else if (!strcmp(k, "exit")) {
    sk_child_exit(p, ((int) j_int(s, "code", 0) & 0xff) << 8);
  } else if (!strcmp(k, "exitg")) {
    sk_child_exit_keep(p, ((int) j_int(s, "code", 0) & 0xff) << 8);
  } else if (!strcmp(k, "ggone")) {
    sk_grand_gone(p);
  } else if (!strcmp(k, "die")) {
    sk_child_exit(p, (int) j_int(s, "sig", 15));
  } else if (!strcmp(k, "cclose")) {
    sk_child_close(p, (int) j_int(s, "fd", 1));
  } else if (!strcmp(k, "cstop")) {   /* the child is stopped (and continued before its next step) */
    if (K->proc[p].state == PS_RUNNING) K->proc[p].stopped = 1;
  } else if (!strcmp(k, "cclosex")) { /* the child closes every descriptor above 2 it holds (incl. the exit handle) and keeps running */
    for (int fd = 3; fd < SK_MAXFD; fd++) sk_child_close(p, fd);
  } else if (!strcmp(k, "cread")) {
    int n = (int) j_int(s, "n", 1);
    int r = sk_child_read(p, 0, n);
    if (r != (int) j_int(s, "got", n) && !keep_going) { jv *o = j_mkint(r); diverge("envfail", k, s, o); }
  } else {
    diverge("badenv", k, s, NULL);
  }
}

static int is_env(jv *s) { return s && !strcmp(j_str(s, "e", ""), "env"); }

/* ---- free-running mode (trace validation, DESIGN 0): children follow timed schedules of their own, the simulated
 * kernel advances the virtual clock when a call blocks, and every environment step taken is written to the trace ---- */
static int free_mode;
extern int sk_block_until;
struct sched_ev { int t; char k[8]; int a; };
static struct { struct sched_ev ev[32]; int n, next; int term_delay; int die_at; } fsch[MAXH];
static int stuck;

static void trace_env(const char *k, int h, const char *f1, long v1, const char *f2, long v2)
{
  jv *s = j_mkobj();
  j_put(s, "e", j_mkstr("env")); j_put(s, "k", j_mkstr(k));
  if (h) j_put(s, "h", j_mkint(h));
  if (f1) j_put(s, f1, j_mkint(v1));
  if (f2) j_put(s, f2, j_mkint(v2));
  if (trace) j_push(trace, s);
}

/* apply one due event or advance the clock to the next event / the end of the current block; 0 = nothing can ever happen */
static int in_block;   /* free_step is being called for a call that has to block (not between calls) */
static int free_step(int until)
{
  int best_h = 0, best_t = -1;
  for (int h = 1; h < MAXH; h++) {
    int p = child_of(h);
    if (p < 0) continue;
    /* after its end only the descendant that inherited a child's descriptors can still do something: go away */
    int post = fsch[h].next < fsch[h].n && !strcmp(fsch[h].ev[fsch[h].next].k, "ggone") && (K->proc[p].state == PS_ZOMBIE || K->proc[p].state == PS_REAPED);
    if (K->proc[p].state != PS_RUNNING && !post) continue;
    int t = -1;
    if (K->proc[p].state != PS_RUNNING) fsch[h].die_at = -1;   /* a child that has ended no longer reacts to a signal */
    if (fsch[h].die_at >= 0) t = fsch[h].die_at;
    if (fsch[h].next < fsch[h].n && (t < 0 || fsch[h].ev[fsch[h].next].t < t)) t = fsch[h].ev[fsch[h].next].t;
    if (t >= 0 && (best_t < 0 || t < best_t)) { best_t = t; best_h = h; }
  }
  if (best_h && best_t <= K->now) {
    int h = best_h, p = child_of(h);
    if (fsch[h].die_at >= 0 && fsch[h].die_at <= K->now) {
      fsch[h].die_at = -1;
      sk_child_exit(p, 15); trace_env("die", h, "sig", 15, NULL, 0);
      return 1;
    }
    struct sched_ev *e = &fsch[h].ev[fsch[h].next++];
    int held = 0; for (int fd = 0; fd < SK_MAXFD; fd++) if (K->proc[p].fd[fd].ofd >= 0) held = 1;
    if (!strcmp(e->k, "ggone")) { if (held) { sk_grand_gone(p); trace_env("ggone", h, "x", 1, NULL, 0); } }
    else if (!strcmp(e->k, "exitg") && !held) { sk_child_exit(p, (e->a & 0xff) << 8); trace_env("exit", h, "code", e->a, NULL, 0); }   /* nothing left to inherit: an ordinary end */
    else if (!strcmp(e->k, "exitg")) { sk_child_exit_keep(p, (e->a & 0xff) << 8); trace_env("exitg", h, "code", e->a, NULL, 0); }
    else if (!strcmp(e->k, "eintr")) { if (in_block) { sk_interrupt = 1; trace_env("eintr", 0, NULL, 0, NULL, 0); } }  /* a signal handler of the caller runs: only a blocked call notices */
    else if (!strcmp(e->k, "out") || !strcmp(e->k, "err")) {
      int tag = e->k[0] == 'o' ? 1 : 2;
      int ispipe = K->proc[p].fd[tag].ofd >= 0 && K->obj[K->ofd[K->proc[p].fd[tag].ofd].obj].kind == OK_PIPE;
      int w = sk_child_write(p, tag, e->a, tag, &coff[h][tag]);
      if (w > 0 && ispipe) trace_env(e->k, h, "n", w, NULL, 0);
    } else if (!strcmp(e->k, "exit")) { sk_child_exit(p, (e->a & 0xff) << 8); trace_env("exit", h, "code", e->a, NULL, 0); }
    else if (!strcmp(e->k, "cclose")) { if (K->proc[p].fd[e->a].ofd >= 0 && K->obj[K->ofd[K->proc[p].fd[e->a].ofd].obj].kind == OK_PIPE) { sk_child_close(p, e->a); trace_env("cclose", h, "fd", e->a, NULL, 0); } }
    else if (!strcmp(e->k, "cread")) { int g = sk_child_read(p, 0, e->a); if (g > 0) trace_env("cread", h, "n", g, "got", g); }
    else if (!strcmp(e->k, "cclosex")) { int any = 0; for (int fd = 3; fd < SK_MAXFD; fd++) if (K->proc[p].fd[fd].ofd >= 0) any = 1; if (any) { for (int fd = 3; fd < SK_MAXFD; fd++) sk_child_close(p, fd); trace_env("cclosex", h, "x", 1, NULL, 0); } }
    return 1;
  }
  int next = best_t;
  if (until != SK_INF && (next < 0 || until < next)) next = until;
  if (next < 0 || next <= K->now) return 0;
  trace_env("adv", 0, "d", next - K->now, NULL, 0);
  K->now = next;
  return 1;
}

/* reproc_run creates its child inside the call: the child's scripted reaction to SIGTERM must be in place before the
   library can signal it, not only when the first environment step looks the child up */
static int run_call_handle;
static void on_fork(int pi)
{
  if (run_call_handle > 0 && run_call_handle < MAXH && K->proc[pi].handle == run_call_handle) K->proc[pi].term = pending_term[run_call_handle];
}

static void on_term_later(int h)
{
  if (free_mode && h > 0 && h < MAXH && fsch[h].die_at < 0) fsch[h].die_at = K->now + fsch[h].term_delay;
}

static int env_pull(void)
{
  if (free_mode) {
    in_block = 1;
    int ok = free_step(sk_block_until);
    in_block = 0;
    if (ok) return 1;
    stuck = 1;
    return 0;
  }
  if (pos < script->n && is_env(script->a[pos])) {
    jv *s = script->a[pos++];
    if (trace) j_push(trace, s);
    apply_env(s);
    return 1;
  }
  return 0;
}

static jv *obs_all(jv *call, long r, jv *extra);

static void finish_trace_stuck(void);
static void finish_keepgoing(int hung);
static void on_hang(const char *what)
{
  if (free_mode) finish_trace_stuck();
  if (keep_going) finish_keepgoing(1);
  /* the code blocks although the model says the call returns here (or the script ended) */
  jv *o = j_mkobj();
  j_put(o, "blocked_in", j_mkstr(what));
  j_put(o, "t", j_mkint(K->now));
  diverge("hang", "blk", pos < script->n ? script->a[pos] : NULL, o);
}

/* ---------- observation ---------- */
static const char *objname_cfg[SK_MAXOBJ];

static jv *child_states(void)
{
  jv *a = j_mkarr();
  for (int h = 1; h < MAXH; h++) {
    int p = child_of(h);
    if (!Hpid[h]) continue;
    if (p > 0 && !K->proc[p].execd && !K->proc[p].forkmode_child) continue;
    int st = p < 0 ? -1 : K->proc[p].state == PS_RUNNING ? 0 : K->proc[p].state == PS_ZOMBIE ? 1 : 2;
    jv *e = j_mkarr(); j_push(e, j_mkint(h)); j_push(e, j_mkint(st)); j_push(a, e);
  }
  return a;
}

static int handle_of_pid(int pid)
{
  for (int h = 1; h < MAXH; h++) if (Hpid[h] == pid) return h;
  int p = sk_proc_by_pid(pid);
  if (p > 0) return K->proc[p].handle ? K->proc[p].handle : -1;
  return -1;
}

/* tokens describing a descriptor by what it refers to (object identity, direction) */
static int ord_obj[SK_MAXOBJ], nord;
static int ordinal(int obj)
{
  for (int i = 0; i < nord; i++) if (ord_obj[i] == obj) return i + 1;
  ord_obj[nord++] = obj;
  return nord;
}
static int parent_holds(int obj, int acc)
{
  struct sk_proc *pp = &K->proc[0];
  for (int i = 0; i < SK_MAXFD; i++)
    if (pp->fd[i].ofd >= 0 && pp->fd[i].owner == 1 && K->ofd[pp->fd[i].ofd].obj == obj && K->ofd[pp->fd[i].ofd].acc == acc) return 1;
  return 0;
}
static jv *fd_token(struct sk_proc *p, int fd, int child_view)
{
  char b[300];
  if (p->fd[fd].ofd < 0) return j_mkstr("x");
  struct sk_ofd *f = &K->ofd[p->fd[fd].ofd];
  struct sk_obj *o = &K->obj[f->obj];
  const char *acc = f->acc == 0 ? "r" : f->acc == 1 ? "w" : "rw";
  switch (o->kind) {
    case OK_PIPE:
      snprintf(b, sizeof b, "p%s#%d%s", acc, ordinal(f->obj),
               child_view ? (parent_holds(f->obj, f->acc == 0 ? 1 : 0) ? "" : "!") : "");
      break;
    case OK_NULL: snprintf(b, sizeof b, "n%s", acc); break;
    case OK_FILE: snprintf(b, sizeof b, "f%s:%s", acc, K->str + o->pathid); break;
    default: snprintf(b, sizeof b, "u:%s", objname_cfg[f->obj] ? objname_cfg[f->obj] : "?"); break;
  }
  return j_mkstr(b);
}

static int cmpstr(const void *a, const void *b) { return strcmp((*(jv *const *) a)->s, (*(jv *const *) b)->s); }
static int tokord(const char *s) { const char *h = strchr(s, '#'); return h ? atoi(h + 1) : 1000; }
/* parent-side tokens are listed by the ordinal of their object (the order in which the child's descriptors
   0,1,2 and then its other descriptors mention it), not by descriptor number, which is an implementation choice */
static int cmpord(const void *a, const void *b)
{
  const char *x = (*(jv *const *) a)->s, *y = (*(jv *const *) b)->s;
  int d = tokord(x) - tokord(y);
  return d ? d : strcmp(x, y);
}

static jv *strlist_at(int off, int n)
{
  jv *a = j_mkarr();
  const char *s = K->str + off;
  for (int i = 0; i < n; i++) { char *e = j_pct_encode(s); j_push(a, j_mkstr(e)); free(e); s += strlen(s) + 1; }
  return a;
}

static jv *siglist(uint64_t m, int upto)
{
  jv *a = j_mkarr();
  for (int s = 1; s <= upto; s++) if (m & (1ULL << (s - 1))) j_push(a, j_mkint(s));
  return a;
}

static jv *obs_key(const char *key, jv *call, long r, jv *extra)
{
  int h = (int) j_int(call, "h", 0);
  jv *x = extra ? j_get(extra, key) : NULL;
  if (x) return x;
  if (!strcmp(key, "r")) return j_mkint(r);
  if (!strcmp(key, "rev")) { /* poll: [r, ev1, ..., evn] as one value so that alternatives stay correlated */
    jv *a = j_mkarr(); j_push(a, j_mkint(r));
    jv *ev = extra ? j_get(extra, "ev") : NULL;
    if (ev) for (int i = 0; i < ev->n; i++) j_push(a, ev->a[i]);
    return a;
  }
  if (!strcmp(key, "t")) return j_mkint(K->now);
  if (!strcmp(key, "dt")) return j_mkint(K->now - t_call);
  if (!strcmp(key, "blk")) return j_mkint(K->blocks > 0);
  if (!strcmp(key, "nfd")) return j_mkint(sk_nfds(0) - soft_offset_fd + nfd_bias);
  if (!strcmp(key, "nalloc")) return j_mkint(sk_nalloc() - soft_offset - kept_ledger);
  if (!strcmp(key, "st")) return child_states();
  if (!strcmp(key, "bad")) return j_mkint(rbad);
  if (!strcmp(key, "sig") || !strcmp(key, "reap") || !strcmp(key, "mon") || !strcmp(key, "created")) {
    jv *a = j_mkarr();
    int created = 0;
    for (int i = log_mark; i < K->nlog; i++) {
      struct sk_log *e = &K->log[i];
      if (e->side != 0) continue;
      if (e->kind == LK_KILL && key[0] == 's') {
        jv *t = j_mkarr();
        j_push(t, j_mkint(e->r == 0 ? handle_of_pid(e->a) : -1)); j_push(t, j_mkint(e->b)); j_push(t, j_mkint(e->t));
        j_push(a, t);
      } else if (e->kind == LK_WAITPID && key[0] == 'r' && e->r > 0) {
        /* a forked process that never became the requested program (start failed before exec) is an artefact
           of the implementation, not a child at the contract level; it is accounted for by "left" */
        int pi = sk_proc_by_pid(e->a);
        if (pi > 0 && (K->proc[pi].execd || K->proc[pi].forkmode_child)) j_push(a, j_mkint(handle_of_pid(e->a)));
      } else if (e->kind == LK_MON && key[0] == 'm') {
        jv *t = j_mkarr(); j_push(t, j_mkint(e->a)); j_push(t, j_mkint(e->b)); j_push(a, t);
      } else if (e->kind == LK_PIPE || e->kind == LK_OPEN || e->kind == LK_FORK || e->kind == LK_DUP) created++;
    }
    if (key[0] == 'c') return j_mkint(created);
    return a;
  }
  if (!strcmp(key, "fpoints")) { /* fault points passed during this call: [side, index, kind] */
    jv *a = j_mkarr();
    for (int i = log_mark; i < K->nlog; i++) if (K->log[i].kind == LK_OTHER) {
      jv *t = j_mkarr(); j_push(t, j_mkint(K->log[i].side)); j_push(t, j_mkint(K->log[i].b)); j_push(t, j_mkint(K->log[i].a)); j_push(a, t);
    }
    return a;
  }
  if (!strcmp(key, "cin")) {
    int p = child_of(h);
    jv *a = j_mkarr();
    if (p >= 0) { j_push(a, j_mkint(K->proc[p].stdin_read)); j_push(a, j_mkint(K->proc[p].stdin_eof)); j_push(a, j_mkint(K->proc[p].stdin_bad)); }
    return a;
  }
  if (!strcmp(key, "pmask")) return siglist(K->proc[0].mask, 64);
  /* dispositions of the caller: [signal, 1 = ignored | 2 = the caller's handler with the caller's flags and mask | 3 = a handler, but
     its flags or mask are no longer what the caller installed] */
  if (!strcmp(key, "pdisp")) { jv *a = j_mkarr(); for (int s = 1; s <= 64; s++) if (K->proc[0].disp[s]) { jv *t = j_mkarr(); j_push(t, j_mkint(s)); j_push(t, j_mkint(K->proc[0].disp[s] == 2 && !sk_sigact_intact(s) ? 3 : K->proc[0].disp[s])); j_push(a, t); } return a; }
  if (!strcmp(key, "pcwd")) return j_mkstr(K->str + K->proc[0].cwd);
  if (!strcmp(key, "penv")) { jv *a = j_mkarr(); for (char **e = environ; e && *e; e++) { char *x = j_pct_encode(*e); j_push(a, j_mkstr(x)); free(x); } return a; }
  /* child-at-exec projections */
  int p = child_of(h);
  if (p < 0) return j_mkstr("nochild");
  struct sk_proc *c = &K->proc[p];
  if (!strcmp(key, "cw") || !strcmp(key, "cx") || !strcmp(key, "pp") || !strcmp(key, "pnb")) {
    nord = 0;
    jv *cw = j_mkarr(), *cx = j_mkarr(), *pp = j_mkarr(), *pf = j_mkarr();
    for (int i = 0; i < 3; i++) j_push(cw, fd_token(c, i, 1));
    for (int i = 3; i < SK_MAXFD; i++) if (c->fd[i].ofd >= 0) j_push(cx, fd_token(c, i, 1));
    for (int i = 0; i < SK_MAXFD; i++) if (K->proc[0].fd[i].ofd >= 0 && K->proc[0].fd[i].owner == 1) {
      jv *t = fd_token(&K->proc[0], i, 0);
      j_push(pp, t);
      char b[320]; snprintf(b, sizeof b, "%s|%d", t->s, K->ofd[K->proc[0].fd[i].ofd].nonblock ? 1 : 0);
      j_push(pf, j_mkstr(b));
    }
    qsort(pp->a, (size_t) pp->n, sizeof(jv *), cmpord);
    qsort(pf->a, (size_t) pf->n, sizeof(jv *), cmpord);
    if (!strcmp(key, "pnb")) {   /* whether each of the parent's ends (same order as pp) is in nonblocking mode */
      jv *nb = j_mkarr();
      for (int i = 0; i < pf->n; i++) j_push(nb, j_mkint(pf->a[i]->s[strlen(pf->a[i]->s) - 1] == '1'));
      return nb;
    }
    return key[1] == 'w' ? cw : key[1] == 'x' ? cx : pp;
  }
  if (!strcmp(key, "cnb")) return j_mkint(c->exec_fds_nonblock);
  if (!strcmp(key, "fchild")) { /* what the forked child saw in fork mode: [start's return value, pid(), wait(0), number of descriptors above 2, number of blocked signals, result of a second start, own descriptors closed by destroy] */
    jv *a = j_mkarr(); j_push(a, j_mkint(c->forkmode_child ? c->fork_ret : -999)); j_push(a, j_mkint(c->stdin_read)); j_push(a, j_mkint(c->stdin_eof));
    j_push(a, j_mkint(c->forkmode_child ? c->stdin_bad : -999));
    j_push(a, j_mkint(c->forkmode_child ? c->fk_nblocked : -999)); j_push(a, j_mkint(c->forkmode_child ? c->fk_start2 : -999));
    j_push(a, j_mkint(c->forkmode_child ? c->fk_lost : -999)); return a;
  }
  if (!strcmp(key, "cexec")) return j_mkint(c->execd);
  if (!strcmp(key, "cmask")) return siglist(c->mask, 64);
  if (!strcmp(key, "cdisp")) { jv *a = j_mkarr(); for (int s = 1; s <= 31; s++) if (c->disp[s]) { jv *t = j_mkarr(); j_push(t, j_mkint(s)); j_push(t, j_mkint(c->disp[s])); j_push(a, t); } return a; }
  if (!strcmp(key, "ccwd")) return j_mkstr(K->str + c->cwd);
  if (!strcmp(key, "cprog")) return j_mkstr(K->str + c->prog);
  if (!strcmp(key, "cprogl")) { /* [length, has the form <synthetic cwd> "/" <argv[0]>] for very long working directories */
    const char *pg = K->str + c->prog, *a0 = c->nargv ? K->str + c->argv : "";
    size_t L = (size_t) K->cwdlen_override, n = strlen(pg);
    int ok = L == 1 ? (n == 1 + strlen(a0) && pg[0] == '/' && strcmp(pg + 1, a0) == 0)
                    : (n == L + 1 + strlen(a0) && pg[L] == '/' && strcmp(pg + L + 1, a0) == 0);
    for (size_t i = 0; ok && i < L; i++) if (pg[i] != ((i % 200 == 0) ? '/' : (char) ('a' + (i % 23)))) ok = 0;
    jv *a = j_mkarr(); j_push(a, j_mkint((long) n)); j_push(a, j_mkint(ok)); return a;
  }
  if (!strcmp(key, "cargv")) return strlist_at(c->argv, c->nargv);
  if (!strcmp(key, "cenv")) return strlist_at(c->env, c->nenv);
  return j_mkstr("?nokey");
}

static const char *ALLKEYS[] = { "r", "t", "dt", "blk", "nfd", "nalloc", "st", "sig", "reap", "mon", NULL };

static jv *obs_all(jv *call, long r, jv *extra)
{
  jv *o = j_mkobj();
  for (int i = 0; ALLKEYS[i]; i++) j_put(o, ALLKEYS[i], obs_key(ALLKEYS[i], call, r, extra));
  if (extra) for (int i = 0; i < extra->n; i++) j_put(o, extra->k[i], extra->a[i]);
  const char *fn = j_str(call, "fn", "");
  if (!strcmp(fn, "poll")) j_put(o, "rev", obs_key("rev", call, r, extra));
  if (!strcmp(fn, "start")) {
    static const char *ak[] = { "pmask", "pdisp", "pcwd", "created", "fpoints", NULL };
    for (int i = 0; ak[i]; i++) j_put(o, ak[i], obs_key(ak[i], call, r, extra));
  }
  if (!strcmp(fn, "start") && r > 0) {
    static const char *sk[] = { "cw", "cx", "pp", "pnb", "cnb", "cexec", "cmask", "cdisp", "ccwd", "cprog", "cargv", "cenv", "pmask", "pcwd", "created", NULL };
    for (int i = 0; sk[i]; i++) j_put(o, sk[i], obs_key(sk[i], call, r, extra));
  }
  return o;
}

/* ---------- building options ---------- */
static char *strs[64]; static int nstrs;
static const char *keep(const char *s) { char *c = strdup(s); free(strs[nstrs % 64]); strs[nstrs++ % 64] = c; return c; }

static const char **strarr(jv *a)
{
  if (!a || a->t != J_ARR) return NULL;
  const char **v = calloc((size_t) a->n + 1, sizeof(char *));
  for (int i = 0; i < a->n; i++) v[i] = a->a[i]->t == J_STR ? j_pct_decode((char *) keep(a->a[i]->s)) : NULL;
  return v;
}

static reproc_redirect mk_redirect(jv *r)
{
  reproc_redirect d = { 0 };
  if (!r) return d;
  if (r->t == J_INT) { d.type = (REPROC_REDIRECT) r->i; return d; }
  if (r->t == J_ARR) {
    if (r->n > 0) d.type = (REPROC_REDIRECT) r->a[0]->i;
    if (r->n > 1 && r->a[1]->t == J_INT) d.handle = (int) r->a[1]->i;
    if (r->n > 2 && r->a[2]->t == J_INT && r->a[2]->i > 0) d.file = sk_file_for_fd(r->a[2]->i == 1000 ? 0 : (int) r->a[2]->i);   /* 1000 = a FILE on descriptor 0 */
    if (r->n > 3 && r->a[3]->t == J_STR && r->a[3]->s[0]) d.path = keep(r->a[3]->s);
  }
  return d;
}

static reproc_stop_actions mk_stop(jv *a)
{
  reproc_stop_actions s = { { REPROC_STOP_NOOP, 0 }, { REPROC_STOP_NOOP, 0 }, { REPROC_STOP_NOOP, 0 } };
  if (!a || a->t != J_ARR) return s;
  reproc_stop_action *v[3] = { &s.first, &s.second, &s.third };
  for (int i = 0; i < 3 && i < a->n; i++) {
    v[i]->action = (REPROC_STOP) a->a[i]->a[0]->i;
    v[i]->timeout = (int) a->a[i]->a[1]->i;
  }
  return s;
}

static uint8_t *pattern_buf(int tag, long off, size_t n)
{
  uint8_t *b = malloc(n ? n : 1);
  for (size_t i = 0; i < n; i++) b[i] = sk_pattern(tag, off + (long) i);
  return b;
}

static reproc_options mk_options(jv *o, int h, uint8_t **inbuf)
{
  reproc_options op = { 0 };
  *inbuf = NULL;
  if (!o) return op;
  op.working_directory = j_get(o, "wd") && j_get(o, "wd")->t == J_STR ? keep(j_get(o, "wd")->s) : NULL;
  op.env.behavior = (REPROC_ENV) j_int(o, "envb", 0);
  op.env.extra = strarr(j_get(o, "envx"));
  op.redirect.in = mk_redirect(j_get(o, "rin"));
  op.redirect.out = mk_redirect(j_get(o, "rout"));
  op.redirect.err = mk_redirect(j_get(o, "rerr"));
  op.redirect.parent = j_int(o, "parent", 0) != 0;
  op.redirect.discard = j_int(o, "discard", 0) != 0;
  long f = j_int(o, "file", 0);
  op.redirect.file = f > 0 ? sk_file_for_fd(f == 1000 ? 0 : (int) f) : NULL;
  op.redirect.path = j_get(o, "path") && j_get(o, "path")->t == J_STR && j_get(o, "path")->s[0] ? keep(j_get(o, "path")->s) : NULL;
  op.stop = mk_stop(j_get(o, "stop"));
  op.deadline = (int) j_int(o, "dl", 0);
  long in = j_int(o, "input", -1);
  if (in >= 0) { *inbuf = pattern_buf(0, woff[h], (size_t) in); op.input.data = *inbuf; op.input.size = (size_t) in; }
  else if (in == -2) { op.input.data = NULL; op.input.size = 3; }
  op.fork = j_int(o, "fork", 0) != 0;
  op.nonblocking = j_int(o, "nb", 0) != 0;
  return op;
}

/* ---------- sinks for drain/run ---------- */
struct recsink { int id; int fail_at; int fail_val; int calls; };
static jv *sinklog;
static int sink_h;
static int rec_sink(REPROC_STREAM stream, const uint8_t *buffer, size_t size, void *ctx)
{
  struct recsink *s = ctx;
  int was = K->in_api; K->in_api = 0;
  s->calls++;
  jv *e = j_mkarr();
  j_push(e, j_mkint(s->id)); j_push(e, j_mkint((long) stream)); j_push(e, j_mkint((long) size));
  /* decode runs */
  jv *runs = j_mkarr();
  int ctag = 0; long cstart = 0, cn = 0;
  for (size_t i = 0; i < size; i++) {
    int b = buffer[i];
    int tag = b >= 1 && b <= 240 ? (b - 1) / 120 + 1 : 0;
    if (tag == 0 || (b - 1) % 120 != roff[sink_h][tag] % 120) rbad = 1;
    if (tag != ctag) {
      if (cn) { jv *r = j_mkarr(); j_push(r, j_mkint(ctag)); j_push(r, j_mkint(cstart)); j_push(r, j_mkint(cn)); j_push(runs, r); }
      ctag = tag; cstart = roff[sink_h][tag < 3 ? tag : 0]; cn = 0;
    }
    cn++;
    if (tag) roff[sink_h][tag]++;
  }
  if (cn) { jv *r = j_mkarr(); j_push(r, j_mkint(ctag)); j_push(r, j_mkint(cstart)); j_push(r, j_mkint(cn)); j_push(runs, r); }
  j_push(e, runs);
  j_push(sinklog, e);
  int ret = (s->fail_at > 0 && s->calls == s->fail_at) ? s->fail_val : 0;
  K->in_api = was;
  return ret;
}

/* string sink of the library, wrapped so that the call is logged and a chosen growth step fails to allocate */
extern int sk_fail_next_realloc;
struct strsink { struct recsink rec; reproc_sink lib; int fail_at; };
static struct strsink strsinks[3];
static int str_sink(REPROC_STREAM stream, const uint8_t *buffer, size_t size, void *ctx)
{
  struct strsink *s = ctx;
  rec_sink(stream, buffer, size, &s->rec);               /* log (never fails: rec.fail_at = 0) */
  if (s->fail_at > 0 && s->rec.calls == s->fail_at) sk_fail_next_realloc = 1;
  int r = s->lib.function(stream, buffer, size, s->lib.context);
  sk_fail_next_realloc = 0;
  return r;
}

/* a sink that re-enters the library: on its first data it drains handle g (whose child has ended and left nothing open,
 * so that this cannot block) with recording sinks of its own, and only then looks at the buffer it was given */
struct nestsink { struct recsink rec; int g; int done; long res[3]; };
static struct nestsink nestsinks[3];
static int can_drain_now(int g)
{
  if (g <= 0 || g >= MAXH || !H[g]) return 0;
  int p = child_of(g);
  if (p < 0 || K->proc[p].state == PS_RUNNING || K->proc[p].state == PS_FORKING) return 0;
  for (int i = 0; i < SK_MAXFD; i++) if (K->proc[p].fd[i].ofd >= 0) return 0;
  return 1;
}
static int nest_sink(REPROC_STREAM stream, const uint8_t *buffer, size_t size, void *ctx)
{
  struct nestsink *s = ctx;
  if (size > 0 && !s->done && can_drain_now(s->g)) {
    s->done = 1;
    struct recsink r1 = { 1, 0, 0, 0 }, r2 = { 2, 0, 0, 0 };
    jv *outer = sinklog; int outer_h = sink_h, outer_handle = K->cur_handle;
    sinklog = j_mkarr(); sink_h = s->g; K->cur_handle = s->g;
    long r = reproc_drain(H[s->g], (reproc_sink){ rec_sink, &r1 }, (reproc_sink){ rec_sink, &r2 });
    long b[3] = { 0, 0, 0 };
    for (int i = 0; i < sinklog->n; i++) b[sinklog->a[i]->a[0]->i] += sinklog->a[i]->a[2]->i;
    s->res[0] = r; s->res[1] = b[1]; s->res[2] = b[2];
    sinklog = outer; sink_h = outer_h; K->cur_handle = outer_handle;
    K->in_api = 1;
  }
  return rec_sink(stream, buffer, size, &s->rec);
}

/* The caller's string of an earlier drain in this script, kept as a real caller would keep it: the next string sink of the
 * same slot gets the SAME buffer, shortened in place to the initial length the script asks for (its prefix is 'I's then). */
static char *kept_str[3];
static void drop_kept(void)
{
  if (!K || !(kept_str[1] || kept_str[2])) { kept_ledger = 0; return; }
  int was = K->in_api; K->in_api = 1;
  for (int i = 0; i < 3; i++) if (kept_str[i]) { reproc_free(kept_str[i]); kept_str[i] = NULL; }
  K->in_api = was; kept_ledger = 0;
}

static reproc_sink mk_sink(jv *spec, struct recsink *rs, int id, char **strp)
{
  /* spec: ["rec", fail_at, fail_val] | ["str", initial_len] | ["discard"] | ["null"] | ["nofn"] */
  const char *k = spec && spec->t == J_ARR && spec->n ? spec->a[0]->s : "rec";
  rs->id = id; rs->calls = 0; rs->fail_at = 0; rs->fail_val = 0;
  if (!strcmp(k, "rec")) {
    if (spec && spec->n > 2) { rs->fail_at = (int) spec->a[1]->i; rs->fail_val = (int) spec->a[2]->i; }
    return (reproc_sink){ rec_sink, rs };
  }
  if (!strcmp(k, "str")) { /* ["str", initial length (-1: NULL), fail at call k (0: never)] */
    long n = spec->n > 1 ? spec->a[1]->i : -1;
    char *kp = kept_str[id];
    int reusable = kp && n >= 0 && strlen(kp) >= (size_t) n;
    for (long q = 0; reusable && q < n; q++) if (kp[q] != 'I') reusable = 0;
    if (reusable) { if (sk_is_alloc(kp)) kept_ledger--; kept_str[id] = NULL; kp[n] = 0; *strp = kp; }
    else if (n >= 0) { *strp = malloc((size_t) n + 1); memset(*strp, 'I', (size_t) n); (*strp)[n] = 0; } else *strp = NULL;
    struct strsink *s = &strsinks[id];
    s->rec.id = id; s->rec.calls = 0; s->rec.fail_at = 0; s->rec.fail_val = 0;
    s->lib = reproc_sink_string(strp);
    s->fail_at = spec->n > 2 ? (int) spec->a[2]->i : 0;
    rs->fail_at = s->fail_at; rs->calls = 0;   /* so that the summary knows which sink failed */
    return (reproc_sink){ str_sink, s };
  }
  if (!strcmp(k, "nest")) {
    struct nestsink *s = &nestsinks[id];
    memset(s, 0, sizeof *s);
    s->rec.id = id; s->g = spec->n > 1 ? (int) spec->a[1]->i : 0;
    return (reproc_sink){ nest_sink, s };
  }
  if (!strcmp(k, "discard")) return reproc_sink_discard();
  if (!strcmp(k, "null")) return REPROC_SINK_NULL;
  return (reproc_sink){ NULL, NULL };
}

/* verify a string sink's content: initial 'I's then pattern bytes; returns [len, nI, ok, runs...] */
static jv *str_obs(char *s, int h)
{
  jv *a = j_mkarr();
  if (!s) { j_push(a, j_mkint(-1)); return a; }
  size_t len = strlen(s), i = 0;
  while (i < len && s[i] == 'I') i++;
  j_push(a, j_mkint((long) len)); j_push(a, j_mkint((long) i));
  long off[3] = { -1, -1, -1 };   /* the string may start in the middle of a stream: continuity from the first byte seen */
  int ok = 1;
  for (; i < len; i++) {
    int b = (unsigned char) s[i];
    int tag = b >= 1 && b <= 240 ? (b - 1) / 120 + 1 : 0;
    if (!tag) { ok = 0; continue; }
    if (off[tag] < 0) off[tag] = (b - 1) % 120;
    if ((b - 1) % 120 != off[tag] % 120) ok = 0; else off[tag]++;
  }
  (void) h;
  j_push(a, j_mkint(ok));
  return a;
}

/* ---------- calls ---------- */
static jv *decode_runs(int h, const uint8_t *buf, long n)
{
  jv *runs = j_mkarr();
  int ctag = -1; long cstart = 0, cn = 0;
  for (long i = 0; i < n; i++) {
    int b = buf[i];
    int tag = b >= 1 && b <= 240 ? (b - 1) / 120 + 1 : 0;
    if (tag == 0 || (b - 1) % 120 != roff[h][tag] % 120) rbad = 1;
    if (tag != ctag) {
      if (cn) { jv *r = j_mkarr(); j_push(r, j_mkint(ctag)); j_push(r, j_mkint(cstart)); j_push(r, j_mkint(cn)); j_push(runs, r); }
      ctag = tag; cstart = roff[h][tag]; cn = 0;
    }
    cn++;
    if (tag) roff[h][tag]++;
  }
  if (cn) { jv *r = j_mkarr(); j_push(r, j_mkint(ctag)); j_push(r, j_mkint(cstart)); j_push(r, j_mkint(cn)); j_push(runs, r); }
  return runs;
}

static void fork_child_epilogue(int h, long r);

/* what the application left in errno before the call is its own business: no result or effect of a call may depend on it.
   Every call is entered with a different left-over value (fixed per position in the script, so a re-run repeats it). */
static char kg_hitfn[16]; static long kg_hitr;
static int ncalls_script;
static const int stale_errno[] = { EBADF, 0, EINTR, EAGAIN, ENOENT, EPIPE, EMFILE, EINVAL };

static long do_call(jv *c, jv **extra)
{
  const char *fn = j_str(c, "fn", "");
  errno = stale_errno[ncalls_script++ % (int) (sizeof stale_errno / sizeof stale_errno[0])];
  int h = (int) j_int(c, "h", 0);
  reproc_t *p = (h > 0 && h < MAXH) ? H[h] : NULL;
  long r = 0;
  *extra = NULL;
  if (opt_cxx) {
    if ((h == 0 || !p) && strcmp(fn, "new") && strcmp(fn, "poll") && strcmp(fn, "run") && strcmp(fn, "sleep")) skip_script("NULL handle has no C++ counterpart");
    if (j_int(c, "nullbuf", 0)) skip_script("NULL buffer");
    jv *oo = j_get(c, "o");
    if (oo && j_int(oo, "fork", 0)) skip_script("fork mode is exercised through the C API");
    jv *sk_ = j_get(c, "sinks");
    if (sk_) for (int i = 0; i < sk_->n; i++) {
      const char *kk = sk_->a[i]->a[0]->s;
      if (!strcmp(kk, "nofn") || !strcmp(kk, "str") || !strcmp(kk, "nest")) skip_script("sink form without a C++ counterpart");
      if (sk_->a[i]->n > 2 && sk_->a[i]->a[2]->i > 0) skip_script("positive sink results are not error codes");
    }
  }
  K->cur_handle = h;
  K->blocks = 0; K->blocked_ticks = 0;
  rbad = 0;
  log_mark = K->nlog;
  t_call = K->now;

  if (!strcmp(fn, "new")) {
    K->in_api = 1; H[h] = opt_cxx ? (reproc_t *) cxx_new() : reproc_new(); K->in_api = 0;
    return H[h] != NULL;
  }
  if (!strcmp(fn, "start")) {
    uint8_t *inbuf;
    jv *o = j_get(c, "o");
    reproc_options op = mk_options(o, h, &inbuf);
    const char **argv = j_int(c, "noargv", 0) ? NULL : strarr(j_get(c, "argv"));
    /* faults */
    jv *fl = j_get(c, "faults");
    K->nfault = 0; K->callno[0] = K->callno[1] = 0; K->fault_hits = 0;
    if (fl) for (int i = 0; i < fl->n && i < SK_MAXFAULT; i++) {
      K->fault[i].side = (int) fl->a[i]->a[0]->i; K->fault[i].index = (int) fl->a[i]->a[1]->i; K->fault[i].err = (int) fl->a[i]->a[2]->i;
      K->nfault++;
    }
    int nproc_before = K->nextpid;
    K->in_api = 1;
    r = opt_cxx ? cxx_start(p, argv, op) : reproc_start(p, argv, op);
    K->in_api = 0;
    if (sk_cur != 0) fork_child_epilogue(h, r); /* forked child in fork mode: never returns */
    K->nfault = 0;
    /* find the child created for this handle (the last one forked during this call) */
    int newpid = 0;
    /* the process forked for THIS handle during this call (the fork wrapper tags it with the calling thread's handle) */
    for (int i = 0; i < K->nlog; i++)
      if (K->log[i].kind == LK_FORK && K->log[i].side == 0 && K->log[i].a > Hpid[h]) {
        int pi = sk_proc_by_pid(K->log[i].a);
        if (pi > 0 && K->proc[pi].handle == h) newpid = K->log[i].a;
      }
    (void) nproc_before;
    if (r > 0 && newpid) {
      Hpid[h] = newpid;
      int pi = sk_proc_by_pid(newpid);
      if (pi > 0) K->proc[pi].term = (int) j_int(c, "term", TERM_IGN);
      if (pi > 0) K->proc[pi].killfail = (int) j_int(c, "kf", 0);
      long in = j_int(o, "input", -1);
      if (in > 0) woff[h] += in;
    }
    jv *x = j_mkobj();
    j_put(x, "forks", j_mkint(newpid ? 1 : 0));
    /* children left behind by a failed start (not reaped) */
    int left = 0;
    if (r < 0) for (int i = 1; i < SK_MAXPROC; i++) if (K->proc[i].state == PS_RUNNING || K->proc[i].state == PS_ZOMBIE) {
      int known = 0; for (int q = 1; q < MAXH; q++) if (Hpid[q] == K->proc[i].pid) known = 1;
      if (!known) left++;
    }
    j_put(x, "left", j_mkint(left));
    *extra = x;
    free(inbuf); free(argv);
    return r;
  }
  if (!strcmp(fn, "pid")) {
    K->in_api = 1; r = opt_cxx ? cxx_pid(p) : reproc_pid(p); K->in_api = 0;
    if (r > 0) r = (h > 0 && r == Hpid[h]) ? 1 : 2;
    return r;
  }
  if (!strcmp(fn, "wait")) { K->in_api = 1; r = opt_cxx ? cxx_wait(p, (int) j_int(c, "to", 0)) : reproc_wait(p, (int) j_int(c, "to", 0)); K->in_api = 0; return r; }
  if (!strcmp(fn, "terminate")) { K->in_api = 1; r = opt_cxx ? cxx_terminate(p) : reproc_terminate(p); K->in_api = 0; return r; }
  if (!strcmp(fn, "kill")) { K->in_api = 1; r = opt_cxx ? cxx_kill(p) : reproc_kill(p); K->in_api = 0; return r; }
  if (!strcmp(fn, "stop")) { reproc_stop_actions s = mk_stop(j_get(c, "a")); K->in_api = 1; r = opt_cxx ? cxx_stop(p, s) : reproc_stop(p, s); K->in_api = 0; return r; }
  if (!strcmp(fn, "destroy")) {
    reproc_t *q = NULL;
    K->in_api = 1; if (opt_cxx) { if (p) cxx_destroy(p); } else q = reproc_destroy(p); K->in_api = 0;
    if (h > 0 && h < MAXH) H[h] = NULL;
    return q == NULL ? 0 : 1;
  }
  if (!strcmp(fn, "close")) { K->in_api = 1; r = opt_cxx ? cxx_close(p, (int) j_int(c, "s", 0)) : reproc_close(p, (REPROC_STREAM) j_int(c, "s", 0)); K->in_api = 0; return r; }
  if (!strcmp(fn, "read")) {
    long n = j_int(c, "n", 1);
    int nullbuf = (int) j_int(c, "nullbuf", 0);
    uint8_t *buf = nullbuf ? NULL : malloc(n > 0 ? (size_t) n : 1);
    K->in_api = 1; r = opt_cxx ? cxx_read(p, (int) j_int(c, "s", 1), buf, (size_t) n) : reproc_read(p, (REPROC_STREAM) j_int(c, "s", 1), buf, (size_t) n); K->in_api = 0;
    jv *x = j_mkobj();
    j_put(x, "runs", r > 0 ? decode_runs(h, buf, r) : j_mkarr());
    j_put(x, "bad", j_mkint(rbad || r > n));
    *extra = x;
    free(buf);
    return r;
  }
  if (!strcmp(fn, "write")) {
    long n = j_int(c, "n", 1);
    int nullbuf = (int) j_int(c, "nullbuf", 0);
    uint8_t *buf = nullbuf ? NULL : pattern_buf(0, woff[h], (size_t) n);
    K->in_api = 1; r = opt_cxx ? cxx_write(p, buf, (size_t) n) : reproc_write(p, buf, (size_t) n); K->in_api = 0;
    if (r > 0) woff[h] += r;
    free(buf);
    return r;
  }
  if (!strcmp(fn, "poll")) {
    jv *src = j_get(c, "src");
    int n = src ? src->n : 0;
    int nullsrc = (int) j_int(c, "nullsrc", 0);
    reproc_event_source *es = calloc((size_t) n + 1, sizeof *es);
    for (int i = 0; i < n; i++) {
      int sh = (int) src->a[i]->a[0]->i;
      es[i].process = sh > 0 && sh < MAXH ? H[sh] : NULL;
      es[i].interests = (int) src->a[i]->a[1]->i;
      es[i].events = 0x5a5a;
    }
    if (opt_cxx) {
      /* reproc++ polls one process through process::poll; there is no NULL source and no NULL array */
      if (n != 1 || nullsrc || !es[0].process) skip_script("poll form without a C++ counterpart");
      int ev = 0;
      K->in_api = 1; r = cxx_poll1(es[0].process, es[0].interests, (int) j_int(c, "to", 0), &ev); K->in_api = 0;
      if (r >= 0) es[0].events = ev;
    } else {
    K->in_api = 1; r = reproc_poll(nullsrc ? NULL : es, (size_t) n, (int) j_int(c, "to", 0)); K->in_api = 0;
    }
    jv *x = j_mkobj(), *ev = j_mkarr();
    for (int i = 0; i < n; i++) j_push(ev, j_mkint(es[i].events == 0x5a5a ? -1 : es[i].events));
    j_put(x, "ev", ev);
    *extra = x;
    free(es);
    return r;
  }
  if (!strcmp(fn, "run0")) { /* reproc_run: no sinks */
    uint8_t *inbuf;
    reproc_options op = mk_options(j_get(c, "o"), h, &inbuf);
    const char **argv = strarr(j_get(c, "argv"));
    pending_term[h] = (int) j_int(c, "term", TERM_IGN);
    if (opt_cxx) skip_script("reproc::run(arguments, options) is exercised through C19's mapping check");
    run_call_handle = h;
    K->in_api = 1; r = reproc_run(argv, op); K->in_api = 0;
    run_call_handle = 0;
    free(inbuf); free(argv);
    return r;
  }
  if (!strcmp(fn, "drain") || !strcmp(fn, "run")) {
    struct recsink so, se;
    char *s1 = NULL, *s2 = NULL;
    jv *sp = j_get(c, "sinks");
    sinklog = j_mkarr(); sink_h = h;
    reproc_sink out = mk_sink(sp && sp->n > 0 ? sp->a[0] : NULL, &so, 1, &s1);
    reproc_sink err = mk_sink(sp && sp->n > 1 ? sp->a[1] : NULL, &se, 2, &s2);
    int same = (int) j_int(c, "samestr", 0);
    if (same) err = out;
    if (fn[0] == 'd') {
      K->in_api = 1; r = opt_cxx ? cxx_drain(p, out, err) : reproc_drain(p, out, err); K->in_api = 0;
    } else {
      uint8_t *inbuf;
      reproc_options op = mk_options(j_get(c, "o"), h, &inbuf);
      const char **argv = strarr(j_get(c, "argv"));
      sink_h = h;
      pending_term[h] = (int) j_int(c, "term", TERM_IGN);
      run_call_handle = h;
      K->in_api = 1; r = opt_cxx ? cxx_run(argv, op, out, err) : reproc_run_ex(argv, op, out, err); K->in_api = 0;
      run_call_handle = 0;
      free(inbuf); free(argv);
    }
    jv *x = j_mkobj();
    j_put(x, "sinks", sinklog);
    /* normalised summary per sink: [calls, data bytes, closing calls]; protocol-order errors set bad */
    {
      long cnt[3][3] = { { 0 } };
      int seen_close[3] = { 0, 0, 0 };
      for (int i = 0; i < sinklog->n; i++) {
        jv *e = sinklog->a[i];
        int id = (int) e->a[0]->i, tag = (int) e->a[1]->i; long sz = e->a[2]->i;
        if (cnt[id][0] == 0) { if (tag != REPROC_STREAM_IN || sz != 0) rbad = 1; }
        else {
          int want = same ? tag : (id == 1 ? REPROC_STREAM_OUT : REPROC_STREAM_ERR);
          if (tag != want || (tag != REPROC_STREAM_OUT && tag != REPROC_STREAM_ERR)) rbad = 1;
          if (seen_close[same ? tag : id]) rbad = 1;      /* nothing may follow a stream's closing call */
          if (sz == 0) { cnt[id][2]++; seen_close[same ? tag : id] = 1; } else cnt[id][1] += sz;
        }
        cnt[id][0]++;
      }
      if (!strcmp(sp && sp->n > 0 ? sp->a[0]->a[0]->s : "rec", "str")) so.calls = strsinks[1].rec.calls;
      if (!strcmp(sp && sp->n > 1 ? sp->a[1]->a[0]->s : "rec", "str")) se.calls = strsinks[2].rec.calls;
      int f1 = so.fail_at > 0 && so.calls >= so.fail_at, f2 = se.fail_at > 0 && se.calls >= se.fail_at;
      jv *ds = j_mkarr();
      for (int id = 1; id <= 2; id++) {
        jv *t = j_mkarr();
        int skip = (id == 1 && !f1 && f2) || (id == 2 && f1);
        for (int q = 0; q < 3; q++) j_push(t, j_mkint(skip ? -1 : cnt[id][q]));
        j_push(ds, t);
      }
      j_put(x, "dsum", ds);
    }
    j_put(x, "bad", j_mkint(rbad));
    const char *k1 = sp && sp->n > 0 ? sp->a[0]->a[0]->s : "rec";
    const char *k2 = sp && sp->n > 1 ? sp->a[1]->a[0]->s : "rec";
    for (int id = 1; id <= 2; id++)
      if (!strcmp(id == 1 ? k1 : k2, "nest") && nestsinks[id].done) {
        jv *nr = j_mkarr(); for (int q = 0; q < 3; q++) j_push(nr, j_mkint(nestsinks[id].res[q]));
        j_put(x, "nest", nr);
      }
    if (!strcmp(k1, "str")) j_put(x, "str1", str_obs(s1, h));
    if (!strcmp(k2, "str") && !same) j_put(x, "str2", str_obs(s2, h));
    int was = K->in_api; K->in_api = 1; /* release through the library's own function - or keep for the next drain of this script */
    char *ss[3] = { NULL, s1, same ? NULL : s2 };
    for (int id = 1; id <= 2; id++) if (ss[id]) {
      if (r != -12 && !kept_str[id] && fn[0] == 'd' && !keep_going) { kept_str[id] = ss[id]; if (sk_is_alloc(ss[id])) kept_ledger++; }   /* (kept also after a timeout or another sink's refusal: the next drain appends to it) */
      else reproc_free(ss[id]);
    }
    K->in_api = was;
    *extra = x;
    return r;
  }
  /* changes the CALLER makes to its own process between library calls (the library must not remember the old state) */
  if (!strcmp(fn, "pchdir")) { K->proc[0].cwd = sk_str(j_str(c, "dir", "/")); K->cwdlen_override = 0; return 0; }
  if (!strcmp(fn, "psetenv")) { environ = (char **) strarr(j_get(c, "env")); return 0; }
  if (!strcmp(fn, "psig")) {   /* the caller changes its own signal mask and dispositions */
    jv *m = j_get(c, "mask"), *dd = j_get(c, "disp");
    K->proc[0].mask = 0;
    if (m) for (int i = 0; i < m->n; i++) K->proc[0].mask |= 1ULL << (m->a[i]->i - 1);
    if (dd) for (int i = 0; i < dd->n; i++) {
      K->proc[0].disp[dd->a[i]->a[0]->i] = (uint8_t) dd->a[i]->a[1]->i;
      if (dd->a[i]->a[1]->i == 2) sk_set_sigact((int) dd->a[i]->a[0]->i, SA_SIGINFO | SA_RESTART, 1ULL << (SIGUSR1 - 1));
    }
    return 0;
  }
  if (!strcmp(fn, "pclose")) {   /* the caller closes some of its own descriptors */
    jv *l = j_get(c, "fds");
    for (int i = 0; l && i < l->n; i++) sk_child_close(0, (int) l->a[i]->i);
    return 0;
  }
  if (!strcmp(fn, "plimit")) {
    K->rlimit_nofile = (int) j_int(c, "limit", 64);
    jv *op = j_get(c, "open");
    if (op) for (int i = 0; i < op->n; i++) {
      int fd = (int) op->a[i]->i;
      int o = sk_new_obj(OK_TTY, 0);
      char nm[16]; snprintf(nm, sizeof nm, "o%d", fd); objname_cfg[o] = keep(nm);
      sk_install(0, fd, o, 2, 0, 0);
    }
    return 0;
  }
  if (!strcmp(fn, "strerror")) {
    K->in_api = 1; const char *s = reproc_strerror((int) j_int(c, "err", 0)); K->in_api = 0;
    jv *x = j_mkobj(); j_put(x, "text", j_mkstr(s ? s : "(null)")); *extra = x;
    return s != NULL;
  }
  diverge("badscript", fn, c, NULL);
  return 0;
}

/* In fork mode reproc_start returns 0 in the (real) forked child.  Record what the child
 * side looks like, call the only legal operation (destroy) and report through shared K. */
static void fork_child_epilogue(int h, long r)
{
  struct sk_proc *me = &K->proc[sk_cur];
  me->forkmode_child = 1;
  me->fork_ret = (int) r;
  me->state = PS_RUNNING;
  me->execd = 0;
  int extra = 0;  /* descriptors above 2 the forked child holds when start returns in it: only the exit handle may be there */
  for (int i = 3; i < SK_MAXFD; i++) if (me->fd[i].ofd >= 0) extra++;
  me->stdin_bad = extra;
  me->fk_nblocked = 0; for (int sg = 1; sg <= 64; sg++) if (me->mask & (1ULL << (sg - 1))) me->fk_nblocked++;
  me->fk_start2 = -999;
  if (r == 0 && h > 0 && h < MAXH && H[h]) {
    K->in_api = 1;
    int q = reproc_pid(H[h]);
    int w = reproc_wait(H[h], 0);
    /* the forked child opens descriptors of its own before it destroys its copy of the handle: they must survive that */
    int mine[6], nmine = 0;
    K->in_api = 0;
    for (int q = 0; q < 6; q++) { int o = sk_new_obj(OK_NULL, 0); int fdq = -1; for (int f = 3; f < SK_MAXFD; f++) if (me->fd[f].ofd < 0) { fdq = f; break; } if (fdq >= 0) { sk_install(sk_cur, fdq, o, 2, 0, 0); mine[nmine++] = fdq; } }
    K->in_api = 1;
    /* the handle counts as started in the child too: a second start is rejected (nothing is created, nobody is forked) */
    const char *argv2[] = { "/bin/c", NULL };
    reproc_options none = { 0 };
    me->fk_start2 = reproc_start(H[h], argv2, none);
    H[h] = reproc_destroy(H[h]);
    K->in_api = 0;
    me->fk_lost = 0; for (int q2 = 0; q2 < nmine; q2++) if (me->fd[mine[q2]].ofd < 0) me->fk_lost++;
    for (int q2 = 0; q2 < nmine; q2++) if (me->fd[mine[q2]].ofd >= 0) sk_child_close(sk_cur, mine[q2]);
    me->stdin_read = q; me->stdin_eof = w; /* reuse fields: results of pid()/wait() in the child */
  }
  __real__exit(0);
}

/* ---------- configuration ---------- */
static void setup(jv *cfg)
{
  size_t cap = (size_t) j_int(cfg, "cap", 4);
  if (cap < 4) { fprintf(stderr, "driver: pipe capacity below sizeof(int) breaks the library's internal error pipe\n"); __real__exit(2); }
  static size_t arena_sz;
  size_t need = cap * 40 + 4096;
  if (!K || need > arena_sz) { arena_sz = need < (1u << 20) ? (1u << 20) : need; K = NULL; sk_init(arena_sz); }
  else sk_init(arena_sz);
  sk_ledger_reset();
  K->pipecap = (int) cap;
  K->rlimit_nofile = (int) j_int(cfg, "limit", 64);
  K->cwdlen_override = (int) j_int(cfg, "cwdlen", 0);
  const char *cwd = j_str(cfg, "cwd", NULL);
  if (cwd) K->proc[0].cwd = sk_str(cwd);
  memset(objname_cfg, 0, sizeof objname_cfg);
  /* standard descriptors of the parent: "fds":[1,1,1] (1 = open on its own terminal-like object, 0 = closed) */
  jv *fds = j_get(cfg, "fds");
  static const char *tn[3] = { "t0", "t1", "t2" };
  /* VERIF_CLOSED_STD=1: the behavioural scripts replayed by a caller that runs with its stdin and stdout closed (a daemon):
     nothing in the contract depends on that, so the same predictions hold - the descriptor count is offset accordingly */
  int closed_std = !fds && getenv("VERIF_CLOSED_STD") != NULL;
  nfd_bias = closed_std ? 2 : 0;
  for (int i = 0; i < 3; i++) {
    int open = fds && i < fds->n ? (int) fds->a[i]->i : (closed_std ? i == 2 : 1);
    if (open) { int o = sk_new_obj(OK_TTY, 0); objname_cfg[o] = tn[i]; sk_install(0, i, o, 2, 0, 0); }
  }
  /* extra descriptors: [[fd, cloexec, name]] */
  jv *ex = j_get(cfg, "extra");
  if (ex) for (int i = 0; i < ex->n; i++) {
    int fd = (int) ex->a[i]->a[0]->i;
    const char *nm = ex->a[i]->n > 2 ? ex->a[i]->a[2]->s : "e";
    static int many_fd;   /* descriptors named "m" are all names for ONE open file (dup'ed): hundreds of them, one object */
    if (i == 0) many_fd = -1;
    if (!strcmp(nm, "m") && many_fd >= 0) { sk_dup_to(0, many_fd, fd, (int) ex->a[i]->a[1]->i, 0); continue; }
    if (!strcmp(nm, "hp")) {   /* the read end of a pipe whose writer (a helper that ended earlier) is gone: open, inheritable, hung up */
      int po = sk_new_obj(OK_PIPE, 8);
      objname_cfg[po] = keep(nm);
      sk_install(0, fd, po, 0, (int) ex->a[i]->a[1]->i, 0);
      continue;
    }
    int o = sk_new_obj(OK_TTY, 0);
    objname_cfg[o] = keep(nm);
    sk_install(0, fd, o, 2, (int) ex->a[i]->a[1]->i, 0);
    if (!strcmp(nm, "m")) many_fd = fd;
  }
  jv *m = j_get(cfg, "mask");
  if (m) for (int i = 0; i < m->n; i++) K->proc[0].mask |= 1ULL << (m->a[i]->i - 1);
  jv *d = j_get(cfg, "disp");
  for (int sg = 1; sg <= 64; sg++) sk_set_sigact(sg, 0, 0);
  if (d) for (int i = 0; i < d->n; i++) {
    K->proc[0].disp[d->a[i]->a[0]->i] = (uint8_t) d->a[i]->a[1]->i;
    if (d->a[i]->a[1]->i == 2) sk_set_sigact((int) d->a[i]->a[0]->i, SA_SIGINFO | SA_RESTART, 1ULL << (SIGUSR1 - 1));   /* a handler with flags and a mask of its own */
  }
  jv *fs = j_get(cfg, "fs");
  sk_fs_add("/bin/c", FS_EXISTS | FS_EXEC);
  sk_fs_add("/w", FS_EXISTS | FS_DIR);
  sk_fs_add("/d", FS_EXISTS | FS_DIR);
  sk_fs_add("/d/fifo", FS_EXISTS | FS_FIFO);
  if (fs) for (int i = 0; i < fs->n; i++) sk_fs_add(fs->a[i]->a[0]->s, (int) fs->a[i]->a[1]->i);
  jv *env = j_get(cfg, "env");
  static char *noenv[] = { NULL };
  environ = env ? (char **) strarr(env) : noenv;
  K->now = (int) j_int(cfg, "t0", 0);
  memset(H, 0, sizeof H); memset(Hpid, 0, sizeof Hpid);
  memset(woff, 0, sizeof woff); memset(coff, 0, sizeof coff); memset(roff, 0, sizeof roff);
}

static void skip_script(const char *why)
{
  jv *v = verdict_base(1);
  j_put(v, "skipped", j_mkstr(why));
  emit(v);
  __real__exit(10);
}

/* ---------- C20: two (or more) API call sequences interleaved at system-call granularity ----------
 * Each "thread" is a coroutine running its calls; control changes hands only at the entry of a
 * kernel-relevant wrapped call (simk's yield hook), following the schedule of the script (a sequence of
 * thread numbers, one per yield point). When the schedule is exhausted the threads run to completion in turn. */
#define MAXT 3
#define COSTACK (512 * 1024)
static struct co { ucontext_t ctx; char *stack; jv *calls; jv *rets; int done; int cur_handle; int yields; jv *kinds; uint64_t mask; } co[MAXT];
static ucontext_t sched_ctx;
static int co_cur = -1, co_n;
static jv *co_sched; static int co_pos;
static int co_total_yields;

static void co_body(int t)
{
  struct co *c = &co[t];
  for (int i = 0; i < c->calls->n; i++) {
    jv *extra;
    cur_call = c->calls->a[i];
    long r = do_call(c->calls->a[i], &extra);
    j_push(c->rets, j_mkint(r));
  }
  c->done = 1;
  swapcontext(&c->ctx, &sched_ctx);
}

static void co_yield(int kind)
{
  (void) kind;
  if (co_cur < 0) return;
  struct co *c = &co[co_cur];
  c->yields++; co_total_yields++;
  j_push(c->kinds, j_mkint(kind));
  c->cur_handle = K->cur_handle;
  swapcontext(&c->ctx, &sched_ctx);
  K->cur_handle = c->cur_handle;   /* per-thread context of the driver */
  K->in_api = 1;
}

static jv *run_conc(jv *st)
{
  jv *th = j_get(st, "threads");
  co_n = th->n < MAXT ? th->n : MAXT;
  co_sched = j_get(st, "sched"); co_pos = 0; co_total_yields = 0;
  for (int t = 0; t < co_n; t++) {
    struct co *c = &co[t];
    memset(c, 0, sizeof *c);
    c->stack = malloc(COSTACK); c->calls = th->a[t]; c->rets = j_mkarr(); c->kinds = j_mkarr();
    /* the signal mask is a property of the thread: each "thread" has its own, swapped in and out with the context */
    jv *tm = j_get(st, "masks");
    c->mask = K->proc[0].mask;
    if (tm && t < tm->n) { c->mask = 0; for (int i = 0; i < tm->a[t]->n; i++) c->mask |= 1ULL << (tm->a[t]->a[i]->i - 1); }
    getcontext(&c->ctx);
    c->ctx.uc_stack.ss_sp = c->stack; c->ctx.uc_stack.ss_size = COSTACK; c->ctx.uc_link = &sched_ctx;
    makecontext(&c->ctx, (void (*)(void)) co_body, 1, t);
  }
  sk_yield_hook = co_yield;
  K->in_api = 0;
  int started[MAXT] = { 0 };
  for (;;) {
    int t = -1;
    while (co_sched && co_pos < co_sched->n) {       /* next schedule entry naming a thread that can still run */
      int want = (int) co_sched->a[co_pos++]->i - 1;
      if (want >= 0 && want < co_n && !co[want].done) { t = want; break; }
    }
    if (t < 0) for (int q = 0; q < co_n; q++) if (!co[q].done) { t = q; break; }
    if (t < 0) break;
    co_cur = t;
    if (!started[t]) K->in_api = 0;    /* a fresh thread starts in driver code */
    started[t] = 1;
    uint64_t main_mask = K->proc[0].mask;
    K->proc[0].mask = co[t].mask;
    swapcontext(&sched_ctx, &co[t].ctx);
    co[t].mask = K->proc[0].mask;
    K->proc[0].mask = main_mask;
    co_cur = -1;
  }
  (void) started;
  sk_yield_hook = NULL;
  K->in_api = 0;
  jv *x = j_mkobj(), *rs = j_mkarr(), *ys = j_mkarr();
  jv *ks = j_mkarr();
  for (int t = 0; t < co_n; t++) { j_push(rs, co[t].rets); j_push(ys, j_mkint(co[t].yields)); j_push(ks, co[t].kinds); free(co[t].stack); }
  j_put(x, "rets", rs); j_put(x, "yields", ys); j_put(x, "ykinds", ks);
  jv *tms = j_mkarr();
  for (int t = 0; t < co_n; t++) j_push(tms, siglist(co[t].mask, 64));
  j_put(x, "tmasks", tms);
  j_put(x, "penv", obs_key("penv", st, 0, NULL));
  j_put(x, "mon", obs_key("mon", st, 0, NULL));
  return x;
}

/* wiring of every started child, and who still holds the write end of each child's stdin pipe */
static jv *conc_obs(void)
{
  jv *a = j_mkarr();
  for (int h = 1; h < MAXH; h++) {
    int p = child_of(h);
    if (p < 0) continue;
    if (!K->proc[p].execd && !K->proc[p].forkmode_child) continue;   /* a start that failed before exec left no child at the contract level */
    jv *call = j_mkobj(); j_put(call, "h", j_mkint(h));
    jv *e = j_mkobj();
    j_put(e, "h", j_mkint(h));
    j_put(e, "cw", obs_key("cw", call, 1, NULL));
    j_put(e, "cx", obs_key("cx", call, 1, NULL));
    j_put(e, "cenv", obs_key("cenv", call, 1, NULL));
    /* number of open file descriptions that can write into this child's stdin pipe besides the parent's own end */
    struct sk_proc *c = &K->proc[p];
    int other = -1;
    if (c->fd[0].ofd >= 0 && K->obj[K->ofd[c->fd[0].ofd].obj].kind == OK_PIPE) other = K->obj[K->ofd[c->fd[0].ofd].obj].writers;
    j_put(e, "inw", j_mkint(other));
    j_push(a, e);
  }
  return a;
}

static void finish_trace_stuck(void)
{
  jv *s = j_mkobj(); j_put(s, "e", j_mkstr("stuck"));
  if (trace) j_push(trace, s);
  jv *v = verdict_base(1);
  j_put(v, "stuck", j_mkint(1));
  if (trace) j_put(v, "trace", trace);
  emit(v);
  __real__exit(10);
}

/* fault-anywhere sweep: whatever happened, release everything and report the bookkeeping */
static void finish_keepgoing(int hung)
{
  jv *v = verdict_base(1);
  int base_fd = sk_nfds(0);
  if (!hung) {
    K->gfault_index = 0;
    for (int h = 1; h < MAXH; h++) if (H[h]) {
      /* make sure destroy can finish: the child dies on SIGKILL at the latest */
      int p = child_of(h);
      if (p > 0 && K->proc[p].state == PS_RUNNING) sk_child_exit(p, 9);
      K->cur_handle = h; K->in_api = 1; H[h] = reproc_destroy(H[h]); K->in_api = 0;
    }
  }
  (void) base_fd;
  jv *mon = j_mkarr();
  for (int i = 0; i < K->nlog; i++) if (K->log[i].kind == LK_MON && K->log[i].side == 0) { jv *t = j_mkarr(); j_push(t, j_mkint(K->log[i].a)); j_push(t, j_mkint(K->log[i].b)); j_push(mon, t); }
  int unreaped = 0;
  for (int i = 1; i < SK_MAXPROC; i++) if (K->proc[i].state == PS_ZOMBIE && (K->proc[i].execd || K->proc[i].forkmode_child) == 0) unreaped++;
  j_put(v, "kg", j_mkint(1)); j_put(v, "hung", j_mkint(hung)); j_put(v, "gcount", j_mkint(K->gcount)); j_put(v, "gkind", j_mkint(K->gfault_kind));
  j_put(v, "hit", j_mkint(K->fault_hits)); j_put(v, "nfd", j_mkint(sk_nfds(0))); j_put(v, "nalloc", j_mkint(sk_nalloc())); j_put(v, "mon", mon);
  j_put(v, "failed_children_unreaped", j_mkint(unreaped));
  j_put(v, "hitfn", j_mkstr(kg_hitfn)); j_put(v, "hitr", j_mkint(kg_hitr));
  emit(v);
  __real__exit(10);
}

/* ---------- main loop over one script ---------- */
static void run_script(jv *s)
{
  script = s; pos = 0;
  if (s->t != J_ARR || s->n == 0) diverge("badscript", "notarray", NULL, NULL);
  jv *cfg = s->a[0];
  sk_env_pull = env_pull;
  sk_on_hang = on_hang;
  sk_on_term_later = on_term_later; sk_on_fork = on_fork;
  setup(cfg);
  free_mode = (int) j_int(cfg, "free", 0);
  K->gfault_index = (int) j_int(cfg, "gfault", 0);
  keep_going = (int) j_int(cfg, "keepgoing", 0);
  memset(fsch, 0, sizeof fsch);
  for (int h = 0; h < MAXH; h++) fsch[h].die_at = -1;
  if (opt_trace || free_mode) { trace = j_mkarr(); j_push(trace, cfg); }
  pos = 1;
  int ncalls = 0;
  while (pos < s->n) {
    jv *st = s->a[pos];
    const char *e = j_str(st, "e", "");
    progress->step = pos;
    if (!strcmp(e, "env")) { pos++; if (trace) j_push(trace, st); cur_call = NULL; apply_env(st); continue; }
    if (!strcmp(e, "call") && free_mode && !strcmp(j_str(st, "fn", ""), "sleep")) {
      /* the caller does nothing for d ticks: children and clock move on */
      pos++;
      int target = K->now + (int) j_int(st, "d", 1);
      while (K->now < target && free_step(target)) {}
      continue;
    }
    if (!strcmp(e, "call")) {
      cur_call = st;
      pos++;
      jv *extra;
      if (free_mode && trace) { jv *b = j_mkobj(); j_put(b, "e", j_mkstr("begin")); j_put(b, "call", st); j_push(trace, b); }
      if (free_mode && !strcmp(j_str(st, "fn", ""), "start")) {
        int h = (int) j_int(st, "h", 0);
        jv *sc = j_get(st, "sched");
        if (h > 0 && h < MAXH && !Hpid[h]) {   /* (a rejected second start must not disturb the running child's schedule) */
          fsch[h].n = 0; fsch[h].next = 0; fsch[h].die_at = -1; fsch[h].term_delay = (int) j_int(st, "termdelay", 1);
          int t = K->now;
          if (sc) for (int i = 0; i < sc->n && i < 32; i++) {
            t += (int) sc->a[i]->a[0]->i;
            fsch[h].ev[i].t = t; strncpy(fsch[h].ev[i].k, sc->a[i]->a[1]->s, 7); fsch[h].ev[i].a = (int) sc->a[i]->a[2]->i; fsch[h].n++;
          }
        }
      }
      int gk0 = K->gfault_kind;
      long r = do_call(st, &extra);
      if (keep_going && gk0 == 0 && K->gfault_kind != 0) { snprintf(kg_hitfn, sizeof kg_hitfn, "%s", j_str(st, "fn", "")); kg_hitr = r; }   /* the call during which the script-wide fault struck */
      ncalls++;
      jv *ret = pos < s->n ? s->a[pos] : NULL;
      if (trace) {
        jv *o = obs_all(st, r, extra);
        jv *rec = j_mkobj();
        j_put(rec, "e", j_mkstr("obs")); j_put(rec, "call", st); j_put(rec, "o", o);
        j_push(trace, rec);
      }
      if (keep_going) {
        /* skip the environment steps the model placed inside this call if the code did not consume them */
        while (pos < s->n && is_env(s->a[pos])) { apply_env(s->a[pos]); pos++; }
        if (pos < s->n && !strcmp(j_str(s->a[pos], "e", ""), "ret")) pos++;
        continue;
      }
      if (ret && is_env(ret)) {
        /* the model still expects environment steps inside this call: the code returned early */
        diverge("early", "blk", ret, obs_all(st, r, extra));
      }
      if (ret && !strcmp(j_str(ret, "e", ""), "ret")) {
        pos++;
        jv *badkeys = NULL, *firstexp = NULL;
        for (int i = 0; i < ret->n; i++) {
          const char *key = ret->k[i];
          if (!strcmp(key, "e") || !strcmp(key, "ralt")) continue;
          jv *exp = ret->a[i];
          jv *obs = obs_key(key, st, r, extra);
          int ok;
          if (exp->t == J_OBJ && j_get(exp, "any")) {
            /* {"any":[v1,v2,...]}: the model allows several outcomes */
            jv *alts = j_get(exp, "any"); ok = 0;
            for (int q = 0; q < alts->n; q++) if (j_eq(alts->a[q], obs)) ok = 1;
          } else ok = j_eq(exp, obs);
          if (!ok) { if (!badkeys) { badkeys = j_mkarr(); firstexp = j_mkobj(); } j_push(badkeys, j_mkstr(key)); j_put(firstexp, key, exp); }
        }
        if (badkeys) {
          /* all keys of one return are one simultaneous observation: report every differing key */
          jv *o = obs_all(st, r, extra);
          for (int i = 0; i < badkeys->n; i++) j_put(o, badkeys->a[i]->s, obs_key(badkeys->a[i]->s, st, r, extra));
          int only_counts = 1;
          for (int i = 0; i < badkeys->n; i++) if (strcmp(badkeys->a[i]->s, "nalloc") && strcmp(badkeys->a[i]->s, "nfd")) only_counts = 0;
          if (only_counts && !soft_div) {
            /* a difference in the allocation / descriptor count alone: remember it, compensate for it and keep checking
               the rest of the script - what the calls made next return says which promise is broken (reported at the
               end, or together with the next divergence) */
            soft_div = j_mkobj();
            j_put(soft_div, "step", j_mkint(pos)); j_put(soft_div, "call", st); j_put(soft_div, "exp", firstexp); j_put(soft_div, "obs", o);
            j_put(soft_div, "keys", badkeys);
            if (j_get(firstexp, "nalloc")) soft_offset += (int) (j_get(o, "nalloc")->i - j_get(firstexp, "nalloc")->i);
            if (j_get(firstexp, "nfd")) soft_offset_fd += (int) (j_get(o, "nfd")->i - j_get(firstexp, "nfd")->i);
          } else {
            cur_keys = badkeys;
            diverge("mismatch", badkeys->a[0]->s, firstexp, o);
          }
        }
      }
      continue;
    }
    if (!strcmp(e, "probe")) {
      /* After the last call of a script: a zero-timeout poll for everything on every started handle.  It changes
         nothing and its answer is a function of the model state, so it exposes damage that a call whose contract says
         "nothing changes" (a timed-out or interrupted wait, a rejected call) did to the handle all the same. */
      pos++;
      if (keep_going || opt_cxx) continue;
      jv *src = j_get(st, "src");
      int n = src ? src->n : 0;
      reproc_event_source *es = calloc((size_t) n + 1, sizeof *es);
      for (int i = 0; i < n; i++) {
        int sh = (int) src->a[i]->a[0]->i;
        es[i].process = sh > 0 && sh < MAXH ? H[sh] : NULL;
        es[i].interests = (int) src->a[i]->a[1]->i;
        es[i].events = 0;
      }
      int fd0 = sk_nfds(0), al0 = sk_nalloc();
      K->in_api = 1; long pr = reproc_poll(es, (size_t) n, 0); K->in_api = 0;
      jv *got = j_mkarr(); j_push(got, j_mkint(pr));
      for (int i = 0; i < n; i++) j_push(got, j_mkint(pr >= 0 ? es[i].events : 0));
      j_push(got, j_mkint(sk_nfds(0) - fd0)); j_push(got, j_mkint(sk_nalloc() - al0));
      free(es);
      jv *alts = j_get(st, "exp"); int ok = 0;
      for (int i = 0; alts && i < alts->n; i++) if (j_eq(alts->a[i], got)) ok = 1;
      if (!ok) {
        jv *o = j_mkobj(); j_put(o, "probe", got);
        jv *x = j_mkobj(); j_put(x, "probe", alts);
        cur_keys = j_mkarr(); j_push(cur_keys, j_mkstr("probe"));
        diverge("mismatch", "probe", x, o);
      }
      continue;
    }
    if (!strcmp(e, "conc")) {
      cur_call = st; pos++;
      in_conc = 1;
      jv *x = run_conc(st);
      cur_call = st;
      j_put(x, "kids", conc_obs());
      if (trace) { jv *rec = j_mkobj(); j_put(rec, "e", j_mkstr("obs")); j_put(rec, "call", st); j_put(rec, "o", x); j_push(trace, rec); }
      jv *exp = j_get(st, "exp");
      if (exp) {
        jv *badkeys = NULL;
        for (int i = 0; i < exp->n; i++) {
          jv *o = j_get(x, exp->k[i]);
          if (!o || !j_eq(exp->a[i], o)) { if (!badkeys) badkeys = j_mkarr(); j_push(badkeys, j_mkstr(exp->k[i])); }
        }
        if (badkeys) { cur_keys = badkeys; diverge("mismatch", badkeys->a[0]->s, exp, x); }
      }
      in_conc = 0;
      continue;
    }
    if (!strcmp(e, "ret")) { pos++; continue; }
    if (!strcmp(e, "cfg")) { pos++; continue; }
    diverge("badscript", e, st, NULL);
  }
  if (keep_going) finish_keepgoing(0);
  if (soft_div) {
    cur_call = j_get(soft_div, "call"); cur_keys = j_get(soft_div, "keys");
    jv *sd = soft_div; soft_div = NULL;
    pos = (int) j_get(sd, "step")->i;
    diverge("mismatch", cur_keys->a[0]->s, j_get(sd, "exp"), j_get(sd, "obs"));
  }
  jv *v = verdict_base(1);
  j_put(v, "calls", j_mkint(ncalls));
  if (trace) j_put(v, "trace", trace);
  emit(v);
}

/* ---------- C13 (b): the full product of option records against the verdict table exported by TLC ----------
 *   vdrv --optsweep <table file> <shard> <nshards> <stride> <offset>
 * table line: s t h f p parent discard file path verdict(0 ok,1 reject,2 late) efftype
 * Every record is passed to reproc_start with the first fault point (the first descriptor-creating call) failing with
 * EMFILE: an accepted record therefore returns -EMFILE without creating anything, a rejected one must return EINVAL
 * before reaching any creating call. */
static unsigned char T_verdict[4][9][2][2][2][2][2][2][2], T_eff[4][9][2][2][2][2][2][2][2];
static int optsweep(const char *tablefile, int shard, int nshards, int stride, int offset)
{
  FILE *tf = fopen(tablefile, "r");
  if (!tf) { perror("table"); return 2; }
  int s, t, h, f, p, pa, di, fi, pt, v, e, rows = 0;
  while (fscanf(tf, "%d %d %d %d %d %d %d %d %d %d %d", &s, &t, &h, &f, &p, &pa, &di, &fi, &pt, &v, &e) == 11) {
    T_verdict[s][t][h][f][p][pa][di][fi][pt] = (unsigned char) v; T_eff[s][t][h][f][p][pa][di][fi][pt] = (unsigned char) e; rows++;
  }
  fclose(tf);
  if (rows != 3 * 9 * 8 * 16) { fprintf(stderr, "optsweep: table has %d rows\n", rows); return 2; }
  jv *cfg = j_parse("{\"e\":\"cfg\",\"cap\":8,\"limit\":32,\"extra\":[[5,0,\"o5\"],[6,0,\"o6\"]]}", NULL);
  setup(cfg);
  K->in_api = 1; reproc_t *proc = reproc_new(); K->in_api = 0;
  const char *argv_ok[] = { "/bin/c", NULL }, *argv_null0[] = { NULL };
  long n = 0, judged = 0, mism = 0, idx = 0;
  static const char *PATHV = "/d/f";
  for (int a = 0; a < 72; a++) for (int b = 0; b < 72; b++) {
    if ((a * 72 + b) % nshards != shard) continue;
    for (int c = 0; c < 72; c++) for (int sh = 0; sh < 16; sh++) for (int in = 0; in < 4; in++) for (int fa = 0; fa < 4; fa++) {
      idx++;
      if (stride > 1 && (idx * 2654435761u >> 7) % (unsigned) stride != (unsigned) offset) continue;
      int R[3] = { a, b, c };
      reproc_options o; memset(&o, 0, sizeof o);
      reproc_redirect *rd[3] = { &o.redirect.in, &o.redirect.out, &o.redirect.err };
      int tv[3], hv[3], fv[3], pv[3];
      for (int q = 0; q < 3; q++) {
        tv[q] = R[q] % 9; hv[q] = (R[q] / 9) & 1; fv[q] = (R[q] / 18) & 1; pv[q] = (R[q] / 36) & 1;
        rd[q]->type = (REPROC_REDIRECT) tv[q]; rd[q]->handle = hv[q] ? 5 : 0; rd[q]->file = fv[q] ? sk_file_for_fd(6) : NULL; rd[q]->path = pv[q] ? PATHV : NULL;
      }
      int pa_ = sh & 1, di_ = (sh >> 1) & 1, fi_ = (sh >> 2) & 1, pt_ = (sh >> 3) & 1;
      o.redirect.parent = pa_; o.redirect.discard = di_; o.redirect.file = fi_ ? sk_file_for_fd(6) : NULL; o.redirect.path = pt_ ? PATHV : NULL;
      static const uint8_t data[4] = { 1, 2, 3, 4 };
      int inputv = in == 0 ? -1 : in == 1 ? -2 : in == 2 ? 0 : 2;
      if (inputv == -2) { o.input.data = NULL; o.input.size = 3; } else if (inputv >= 0) { o.input.data = data; o.input.size = (size_t) inputv; }
      int forkv = fa & 1, argvmode = fa >> 1;   /* argvmode 0: given, 1: NULL */
      o.fork = forkv;
      const char *const *argv = argvmode ? NULL : argv_ok;
      (void) argv_null0;
      /* model: compose the per-stream table */
      int rej = 0, late = 0, eff_in = 0;
      for (int q = 0; q < 3; q++) {
        int vd = T_verdict[q + 1][tv[q]][hv[q]][fv[q]][pv[q]][pa_][di_][fi_][pt_];
        if (vd == 1) rej = 1; else if (vd == 2) late = 1;
        if (q == 0) eff_in = T_eff[1][tv[0]][hv[0]][fv[0]][pv[0]][pa_][di_][fi_][pt_];
      }
      int unspec = pa_ && di_ && !rej;
      int input_bad = inputv == -2 || (inputv >= 0 && eff_in != REPROC_REDIRECT_PIPE);
      int fork_bad = (forkv && !argvmode) || (!forkv && argvmode);
      n++;
      if (unspec) continue;
      int expect_einval = rej || late || input_bad || fork_bad;
      int must_be_upfront = rej || (!late && (input_bad || fork_bad));
      K->nlog = 0; K->nfault = 1; K->fault[0].side = 0; K->fault[0].index = 1; K->fault[0].err = EMFILE; K->callno[0] = K->callno[1] = 0; K->fault_hits = 0;
      K->in_api = 1; int r = reproc_start(proc, argv, o); K->in_api = 0;
      int created = 0; for (int i = 0; i < K->nlog; i++) if (K->log[i].kind == LK_PIPE || K->log[i].kind == LK_OPEN || K->log[i].kind == LK_FORK) created++;
      judged++;
      /* (an out-of-range type need not be rejected up front, DESIGN 5.3: the injected EMFILE of an earlier stream may win) */
      int ok = expect_einval ? ((r == -EINVAL || (!must_be_upfront && r == -EMFILE)) && (!must_be_upfront || (created == 0 && K->fault_hits == 0)))
                             : (r == -EMFILE && created == 0);
      if (!ok && mism++ < 40)
        printf("{\"i\":%ld,\"ok\":0,\"kind\":\"optprod\",\"fn\":\"start\",\"rd\":[[%d,%d,%d,%d],[%d,%d,%d,%d],[%d,%d,%d,%d]],\"sh\":[%d,%d,%d,%d],\"input\":%d,\"fork\":%d,\"argvnull\":%d,"
               "\"expect\":\"%s\",\"r\":%d,\"created\":%d,\"faulthit\":%d}\n", idx, tv[0], hv[0], fv[0], pv[0], tv[1], hv[1], fv[1], pv[1], tv[2], hv[2], fv[2], pv[2],
               pa_, di_, fi_, pt_, inputv, forkv, argvmode, expect_einval ? (must_be_upfront ? "EINVAL-upfront" : "EINVAL") : "accepted", r, created, K->fault_hits);
    }
  }
  printf("{\"i\":0,\"ok\":1,\"records\":%ld,\"judged\":%ld,\"mismatches\":%ld}\n", n, judged, mism);
  return 0;
}

#define BATCH 64
static char *batch[BATCH];

static void run_line(char *line, int idx)
{
  const char *err;
  j_reset();
  trace = NULL; cur_call = NULL; cur_keys = NULL; soft_div = NULL; soft_offset = 0; soft_offset_fd = 0; in_conc = 0; drop_kept();
  errno = 0; ncalls_script = 0; kg_hitfn[0] = 0; kg_hitr = 0;   /* (every script starts as its replay alone would: nothing left over from the previous script of the batch) */
  if (!strncmp(line, "<<\"BEH\", \"", 10)) {
    /* TLC PrintT of <<"BEH", ToJson(hist)>>: a TLA+ string literal; undo its escaping in place */
    char *o = line, *q = line + 10;
    while (*q && !(q[0] == '"' && q[1] == '>' && q[2] == '>')) { if (*q == '\\' && q[1]) q++; *o++ = *q++; }
    *o = 0;
  }
  jv *s = j_parse(line, &err);
  if (!s) { fprintf(stderr, "driver: script %d: json error: %s\n", idx, err); __real__exit(2); }
  run_script(s);
}

int main(int argc, char **argv)
{
  if (argc >= 7 && !strcmp(argv[1], "--optsweep")) {
    progress = mmap(NULL, 4096, PROT_READ | PROT_WRITE, MAP_SHARED | MAP_ANONYMOUS, -1, 0);
    return optsweep(argv[2], atoi(argv[3]), atoi(argv[4]), atoi(argv[5]), atoi(argv[6]));
  }
  for (int i = 1; i < argc; i++) {
    if (!strcmp(argv[i], "--trace")) opt_trace = 1;
    else if (!strcmp(argv[i], "--nofork")) opt_nofork = 1;
    else if (!strcmp(argv[i], "--cxx")) opt_cxx = 1;
  }
  signal(SIGPIPE, SIG_IGN);
  progress = mmap(NULL, 4096, PROT_READ | PROT_WRITE, MAP_SHARED | MAP_ANONYMOUS, -1, 0);
  size_t cap = 0; ssize_t len;
  int idx = 0, eof = 0;
  while (!eof) {
    /* read a batch of scripts, then run it in a worker process; a worker that diverges, hangs or
       crashes ends, and a fresh worker continues with the script after the one it was running */
    int n = 0;
    while (n < BATCH) {
      char *line = NULL; cap = 0;
      len = getline(&line, &cap, stdin);
      if (len <= 0) { free(line); eof = 1; break; }
      if (len < 3) { free(line); continue; }
      batch[n++] = line;
    }
    int next = 0;
    while (next < n) {
      fflush(NULL);
      progress->i = idx + next + 1; progress->step = 0; progress->kind = 0;
      pid_t c = opt_nofork ? 0 : __real_fork();
      if (c == 0) {
        for (int k = next; k < n; k++) {
          progress->i = idx + k + 1; progress->step = 0;
          run_line(batch[k], idx + k + 1);
        }
        __real__exit(0);
      }
      int st = 0;
      while (__real_waitpid(c, &st, 0) < 0 && errno == EINTR) {}
      if (WIFEXITED(st) && WEXITSTATUS(st) == 0) break; /* batch complete */
      int at = progress->i - idx - 1;
      if (!(WIFEXITED(st) && WEXITSTATUS(st) == 10)) {
        /* the worker died: sanitizer report, abort, crash, or infrastructure error (2) */
        char b[256];
        int code = WIFEXITED(st) ? WEXITSTATUS(st) : -WTERMSIG(st);
        int m = snprintf(b, sizeof b, "{\"i\":%d,\"ok\":0,\"kind\":\"%s\",\"step\":%d,\"status\":%d}\n", progress->i,
                         code == 2 ? "infra" : code == 3 ? "hang" : "crash", progress->step, code);
        if (__real_write(1, b, (size_t) m) < 0) return 2;
      }
      next = at + 1;
    }
    for (int k = 0; k < n; k++) free(batch[k]);
    idx += n;
  }
  return 0;
}
