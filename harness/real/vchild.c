/* vchild — helper child for the real-kernel replays: reports what it was given (argv, environment, working directory,
 * the program file it is, every open descriptor with identity and mode, signal mask / dispositions) into
 * DUMPDIR/dump.<pid>, then exits 0.  Lists descriptors BEFORE opening the dump file. */
#define _GNU_SOURCE
#include <dirent.h>
#include <fcntl.h>
#include <stdio.h>
#include <stdlib.h>
#include <string.h>
#include <sys/stat.h>
#include <sys/sysmacros.h>
#include <unistd.h>
extern char **environ;
#ifndef DUMPDIR
#define DUMPDIR "/tmp"
#endif
static void jstr(FILE *f, const char *s)
{
  fputc('"', f);
  for (const unsigned char *c = (const unsigned char *) s; *c; c++) {
    size_t run = 1; while (c[run] == *c) run++;
    if (run >= 256 && *c >= 0x20 && *c < 0x7f && *c != '%' && *c != '"' && *c != '\\') { fprintf(f, "%%*%zu*%c", run, *c); c += run - 1; }   /* the scripts' run token (json.c) */
    else if (*c == '"' || *c == '\\') fprintf(f, "\\%c", *c);
    else if (*c < 0x20 || *c >= 0x7f || *c == '%') fprintf(f, "%%%02X", *c);   /* the scripts' %XX convention (json.h) */
    else fputc(*c, f);
  }
  fputc('"', f);
}
#include <signal.h>
int main(int argc, char **argv)
{
  /* vchild exit <n> / vchild raise <sig>: end in a chosen way (C01 sweep on the real kernel) */
  if (argc >= 3 && !strcmp(argv[1], "exit")) _exit(atoi(argv[2]));
  if (argc >= 3 && !strcmp(argv[1], "raise")) { raise(atoi(argv[2])); pause(); _exit(99); }
  struct { int fd; struct stat st; int fl; } fds[256]; int n = 0;
  /* no opendir here (it would add a descriptor): probe the numbers */
  for (int fd = 0; fd < 1100 && n < 256; fd++) {
    struct stat st;
    if (fstat(fd, &st) == 0) { fds[n].fd = fd; fds[n].st = st; fds[n].fl = fcntl(fd, F_GETFL); n++; }
  }
  char cwd[8192]; if (!getcwd(cwd, sizeof cwd)) strcpy(cwd, "?");
  char exe[8192]; ssize_t el = readlink("/proc/self/exe", exe, sizeof exe - 1); exe[el > 0 ? el : 0] = 0;
  char sigblk[64] = "", sigign[64] = "", sigcgt[64] = "";
  FILE *ps = fopen("/proc/self/status", "r");
  if (ps) { char line[256]; while (fgets(line, sizeof line, ps)) { sscanf(line, "SigBlk: %63s", sigblk); sscanf(line, "SigIgn: %63s", sigign); sscanf(line, "SigCgt: %63s", sigcgt); } fclose(ps); }
  char path[512]; snprintf(path, sizeof path, "%s/dump.%d", DUMPDIR, (int) getpid());
  FILE *f = fopen(path, "w");
  if (!f) return 3;
  fprintf(f, "{\"argv\":[");
  for (int i = 0; i < argc; i++) { if (i) fputc(',', f); jstr(f, argv[i]); }
  fprintf(f, "],\"env\":[");
  for (int i = 0; environ[i]; i++) { if (i) fputc(',', f); jstr(f, environ[i]); }
  fprintf(f, "],\"cwd\":"); jstr(f, cwd);
  fprintf(f, ",\"exe\":"); jstr(f, exe);
  fprintf(f, ",\"sigblk\":\"%s\",\"sigign\":\"%s\",\"sigcgt\":\"%s\",\"fds\":[", sigblk, sigign, sigcgt);
  for (int i = 0; i < n; i++)
    fprintf(f, "%s[%d,%lu,%lu,%lu,%d,%d,%d]", i ? "," : "", fds[i].fd, (unsigned long) fds[i].st.st_dev, (unsigned long) fds[i].st.st_ino,
            (unsigned long) fds[i].st.st_rdev, fds[i].fl & O_ACCMODE, S_ISFIFO(fds[i].st.st_mode) ? 1 : 0, (fds[i].fl & O_NONBLOCK) ? 1 : 0);
  fprintf(f, "]}\n");
  fclose(f);
  return 0;
}
