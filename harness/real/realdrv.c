/* realdrv — replays the Launch-family scripts (MC_Launch: wiring, env, env2) against reproc on the REAL kernel:
 * real descriptors, real fork/exec, a real helper child (vchild) that reports what it was given.  Same script
 * language and the same expectations as the simulated replay; only the projection is computed from the real
 * system (fstat identities, /proc/self/status).  One subprocess per script.
 *   realdrv <root dir> < scripts > verdicts
 */
#define _GNU_SOURCE
#include <errno.h>
#include <fcntl.h>
#include <signal.h>
#include <stdio.h>
#include <stdlib.h>
#include <string.h>
#include <sys/resource.h>
#include <sys/stat.h>
#include <sys/wait.h>
#include <unistd.h>
#include <reproc/reproc.h>
#include "json.h"

extern char **environ;
static const char *ROOT;
/* a FILE object for descriptor fd; if that descriptor is not open, a STALE one: made while it was open, closed underneath */
static FILE *stale_or_fdopen(int fd)
{
  FILE *f = fdopen(fd, "w");
  if (f) return f;
  int n = open("/dev/null", O_WRONLY);
  if (n < 0) return NULL;
  if (n != fd) { if (dup2(n, fd) < 0) { close(n); return NULL; } close(n); }
  f = fdopen(fd, "w");
  close(fd);
  return f;
}
static int VFD = 60;   /* verdict descriptor (close-on-exec, above the descriptor limit the scripts set) */
static char outbuf[1 << 18];

static const char *mp(const char *p) { static char b[8][4600]; static int k; char *r = b[k++ % 8]; snprintf(r, 4600, "%s%s", ROOT, p); return r; }
static const char *unroot(const char *p) { size_t n = strlen(ROOT); return strncmp(p, ROOT, n) == 0 ? (p[n] ? p + n : "/") : p; }

struct ident { unsigned long dev, ino, rdev; int acc, fifo, nb, fd; };
static int scan(struct ident *v, int max)
{
  int n = 0;
  for (int fd = 0; fd < 1100 && n < max; fd++) {
    struct stat st;
    if (fd == VFD) continue;
    if (fstat(fd, &st) == 0) { int fl = fcntl(fd, F_GETFL); v[n++] = (struct ident){ st.st_dev, st.st_ino, st.st_rdev, fl & O_ACCMODE, S_ISFIFO(st.st_mode), (fl & O_NONBLOCK) != 0, fd }; }
  }
  return n;
}

static struct { const char *name; unsigned long dev, ino; } known[16]; static int nknown;
static unsigned long null_rdev;
static void know(const char *name, const char *path) { struct stat st; if (stat(path, &st) == 0) { known[nknown].name = name; known[nknown].dev = st.st_dev; known[nknown].ino = st.st_ino; nknown++; } }

static unsigned long ord_ino[32]; static int nord;
static int ordinal(unsigned long ino) { for (int i = 0; i < nord; i++) if (ord_ino[i] == ino) return i + 1; ord_ino[nord++] = ino; return nord; }

static jv *token(const struct ident *c, const struct ident *parent, int np, int child_view)
{
  char b[256];
  const char *acc = c->acc == O_RDONLY ? "r" : c->acc == O_WRONLY ? "w" : "rw";
  if (c->fifo) {
    int held = 0;
    for (int i = 0; i < np; i++) if (parent[i].fifo && parent[i].ino == c->ino && parent[i].acc != c->acc) held = 1;
    snprintf(b, sizeof b, "p%s#%d%s", acc, ordinal(c->ino), child_view && !held ? "!" : "");
    return j_mkstr(b);
  }
  if (c->rdev == null_rdev && null_rdev) { snprintf(b, sizeof b, "n%s", acc); return j_mkstr(b); }
  for (int i = 0; i < nknown; i++) if (known[i].dev == c->dev && known[i].ino == c->ino) {
    if (known[i].name[0] == '/') snprintf(b, sizeof b, "f%s:%s", acc, known[i].name); else snprintf(b, sizeof b, "u:%s", known[i].name);
    return j_mkstr(b);
  }
  return j_mkstr("u:?");
}

static void normpath(char *p)
{ /* collapse "/./" and "//" */
  char *o = p;
  for (char *q = p; *q; ) {
    if (q[0] == '/' && q[1] == '.' && q[2] == '/') { q += 2; continue; }
    if (q[0] == '/' && q[1] == '/') { q++; continue; }
    *o++ = *q++;
  }
  *o = 0;
}

static jv *siglist_hex(const char *hex, int val)
{
  jv *a = j_mkarr();
  unsigned long long m = strtoull(hex, NULL, 16);
  for (int s = 1; s <= 31; s++) if (m & (1ULL << (s - 1))) { jv *t = j_mkarr(); j_push(t, j_mkint(s)); j_push(t, j_mkint(val)); j_push(a, t); }
  return a;
}

static reproc_redirect mk_redirect(jv *r)
{
  reproc_redirect d = { 0 };
  if (!r || r->t != J_ARR) return d;
  d.type = (REPROC_REDIRECT) r->a[0]->i;
  d.handle = (int) r->a[1]->i;
  long f = r->a[2]->i;
  d.file = f == 0 ? NULL : f == 1000 ? stdin : f == 1 ? stdout : f == 2 ? stderr : stale_or_fdopen((int) f);   /* 1000 = a FILE on descriptor 0 */
  d.path = r->a[3]->t == J_STR && r->a[3]->s[0] ? mp(r->a[3]->s) : NULL;
  return d;
}

static void emit(jv *v) { size_t n = j_print(v, outbuf, sizeof outbuf - 2); outbuf[n++] = '\n'; if (write(VFD, outbuf, n) < 0) _exit(2); }

static jv *slist(jv *a) { return a ? a : j_mkarr(); }

static int do_start(reproc_t *p, jv *st, jv *exp, jv *v, int idx)
{
  jv *o = j_get(st, "o");
  reproc_options op = { 0 };
  jv *wd = j_get(o, "wd");
  op.working_directory = wd && wd->t == J_STR && wd->s[0] ? mp(wd->s) : NULL;
  op.env.behavior = (REPROC_ENV) j_int(o, "envb", 0);
  jv *ex = j_get(o, "envx");
  const char **envx = NULL;
  if (ex) { envx = calloc((size_t) ex->n + 1, sizeof *envx); for (int i = 0; i < ex->n; i++) envx[i] = j_pct_decode(strdup(ex->a[i]->s)); }
  op.env.extra = envx;
  op.redirect.in = mk_redirect(j_get(o, "rin")); op.redirect.out = mk_redirect(j_get(o, "rout")); op.redirect.err = mk_redirect(j_get(o, "rerr"));
  op.redirect.parent = j_int(o, "parent", 0) != 0; op.redirect.discard = j_int(o, "discard", 0) != 0;
  long f = j_int(o, "file", 0); op.redirect.file = f == 1000 ? stdin : f ? stale_or_fdopen((int) f) : NULL;
  const char *pth = j_str(o, "path", ""); op.redirect.path = pth[0] ? mp(pth) : NULL;
  long in = j_int(o, "input", -1);
  static uint8_t data[64]; if (in >= 0) { op.input.data = data; op.input.size = (size_t) in; } else if (in == -2) { op.input.size = 3; }
  op.nonblocking = j_int(o, "nb", 0) != 0;
  op.stop.first.action = REPROC_STOP_KILL; op.stop.first.timeout = REPROC_INFINITE;
  jv *av = j_get(st, "argv");
  const char **argv = calloc((size_t) (av ? av->n : 0) + 1, sizeof *argv);
  for (int i = 0; av && i < av->n; i++) argv[i] = (i == 0 && av->a[0]->s[0] == '/') ? mp(av->a[0]->s) : j_pct_decode(strdup(av->a[i]->s));
  static struct ident before[640], after[640]; struct ident owned[32]; int nb = scan(before, 640);
  int r = reproc_start(p, j_int(st, "noargv", 0) ? NULL : argv, op);
  int na = scan(after, 640), nown = 0;
  for (int i = 0; i < na; i++) { int was = 0; for (int k = 0; k < nb; k++) if (before[k].fd == after[i].fd) was = 1; if (!was && nown < 32) owned[nown++] = after[i]; }
  jv *obs = j_mkobj();
  j_put(obs, "r", j_mkint(r > 0 ? 1 : r));
  j_put(obs, "nfd", j_mkint(na));
  sigset_t cur; sigprocmask(SIG_BLOCK, NULL, &cur);
  jv *pm = j_mkarr(); for (int s = 1; s <= 64; s++) if (s != 32 && s != 33 && sigismember(&cur, s) == 1) j_push(pm, j_mkint(s));
  j_put(obs, "pmask", pm);
  { char cw[4600]; if (getcwd(cw, sizeof cw)) j_put(obs, "pcwd", j_mkstr(unroot(cw))); }
  if (r > 0) {
    int pid = reproc_pid(p);
    int w = reproc_wait(p, 20000);
    char path[4700]; snprintf(path, sizeof path, "%s/dump.%d", ROOT, pid);
    FILE *df = fopen(path, "r");
    j_put(obs, "childstatus", j_mkint(w));
    if (df) {
      static char text[1 << 17]; size_t n = fread(text, 1, sizeof text - 1, df); text[n] = 0; fclose(df); unlink(path);
      const char *err; jv *d = j_parse(text, &err);
      if (d) {
        jv *fds = j_get(d, "fds");
        nord = 0;
        jv *cw = j_mkarr(), *cx = j_mkarr(), *pp = j_mkarr(); int cnb = 0;
        jv *std[3] = { NULL, NULL, NULL };
        for (int i = 0; i < fds->n; i++) {
          jv *e = fds->a[i];
          struct ident c = { (unsigned long) e->a[1]->i, (unsigned long) e->a[2]->i, (unsigned long) e->a[3]->i, (int) e->a[4]->i, (int) e->a[5]->i, (int) e->a[6]->i, (int) e->a[0]->i };
          jv *t = token(&c, owned, nown, 1);
          if (c.fd < 3) { std[c.fd] = t; if (c.nb) cnb |= 1 << c.fd; } else j_push(cx, t);
        }
        for (int i = 0; i < 3; i++) j_push(cw, std[i] ? std[i] : j_mkstr("x"));
        /* parent ends, by ordinal */
        jv *pnb = j_mkarr();   /* nonblocking mode of each parent end, same order as pp */
        for (int k = 1; k <= 8; k++) for (int i = 0; i < nown; i++) if (owned[i].fifo) { int seen = 0; for (int q = 0; q < nord; q++) if (ord_ino[q] == owned[i].ino && q + 1 == k) seen = 1; if (seen) { j_push(pp, token(&owned[i], NULL, 0, 0)); j_push(pnb, j_mkint(owned[i].nb)); } }
        for (int i = 0; i < nown; i++) if (!owned[i].fifo) { j_push(pp, token(&owned[i], NULL, 0, 0)); j_push(pnb, j_mkint(owned[i].nb)); }
        j_put(obs, "cw", cw); j_put(obs, "cx", cx); j_put(obs, "pp", pp); j_put(obs, "pnb", pnb); j_put(obs, "cnb", j_mkint(cnb)); j_put(obs, "cexec", j_mkint(1));
        jv *ca = j_get(d, "argv");
        if (ca && ca->n) ca->a[0] = j_mkstr(unroot(ca->a[0]->s));
        j_put(obs, "cargv", slist(ca)); j_put(obs, "cenv", slist(j_get(d, "env")));
        j_put(obs, "ccwd", j_mkstr(unroot(j_str(d, "cwd", "?"))));
        char exe[4600]; snprintf(exe, sizeof exe, "%s", unroot(j_str(d, "exe", "?"))); j_put(obs, "cexe", j_mkstr(exe));
        jv *cm = j_mkarr(); { unsigned long long m = strtoull(j_str(d, "sigblk", "0"), NULL, 16); for (int s = 1; s <= 64; s++) if (m & (1ULL << (s - 1))) j_push(cm, j_mkint(s)); }
        j_put(obs, "cmask", cm);
        jv *cd = siglist_hex(j_str(d, "sigign", "0"), 1), *cg = siglist_hex(j_str(d, "sigcgt", "0"), 2);
        for (int i = 0; i < cg->n; i++) j_push(cd, cg->a[i]);
        j_put(obs, "cdisp", cd);
      }
    } else j_put(obs, "nodump", j_mkint(1));
  }
  /* compare */
  jv *bad = NULL;
  for (int i = 0; exp && i < exp->n; i++) {
    const char *k = exp->k[i];
    jv *e = exp->a[i], *ob = NULL;
    if (!strcmp(k, "cprog")) {
      char want[4600], got[4600];
      /* a relative program name that is not re-based on the parent's directory is resolved against the directory the
         child was launched from: the parent's own */
      if (e->s[0] == '/') snprintf(want, sizeof want, "%s", e->s);
      else { const char *pc = j_str(obs, "pcwd", "/"); snprintf(want, sizeof want, "%s/%s", strcmp(pc, "/") ? pc : "", e->s); }
      normpath(want);
      snprintf(got, sizeof got, "%s", j_str(obs, "cexe", "?")); normpath(got);
      /* names without '/' are resolved by PATH: not asserted */
      if (strchr(want, '/') && strcmp(want, got)) { if (!bad) bad = j_mkarr(); j_push(bad, j_mkstr(k)); }
      continue;
    }
    if (!strcmp(k, "e") || !strcmp(k, "mon") || !strcmp(k, "nalloc") || !strcmp(k, "left") || !strcmp(k, "created") || !strcmp(k, "pdisp") || !strcmp(k, "penv") || !strcmp(k, "cprogl")) continue;
    ob = j_get(obs, k);
    if (!strcmp(k, "cargv") && e->n && e->a[0]->t == J_STR) { /* expected argv[0] as the script wrote it */ }
    if (!ob || !j_eq(e, ob)) { if (!bad) bad = j_mkarr(); j_push(bad, j_mkstr(k)); }
  }
  if (bad) { j_put(v, "ok", j_mkint(0)); j_put(v, "kind", j_mkstr("mismatch")); j_put(v, "fn", j_mkstr("start")); j_put(v, "keys", bad); j_put(v, "exp", exp); j_put(v, "obs", obs); j_put(v, "call", st); j_put(v, "real", j_mkint(1)); }
  (void) idx;
  return bad != NULL;
}

static void noop_handler(int s) { (void) s; }

static void run(jv *s, int idx)
{
  jv *cfg = s->a[0];
  jv *v = j_mkobj(); j_put(v, "i", j_mkint(idx)); j_put(v, "ok", j_mkint(1));
  { const char *keys_[3] = { "rin", "rout", "rerr" }; jv *o_ = NULL;
    for (int q = 1; q < s->n && !o_; q++) if (!strcmp(j_str(s->a[q], "fn", ""), "start")) o_ = j_get(s->a[q], "o");
    for (int q = 0; o_ && q < 3; q++) { jv *rr = j_get(o_, keys_[q]); if (rr && rr->t == J_ARR && rr->n > 3 && rr->a[3]->t == J_STR && strstr(rr->a[3]->s, "fifo")) { j_put(v, "skipped", j_mkint(1)); emit(v); _exit(0); } } }   /* (opening a real FIFO waits for its other side: simulated kernel only) */
  if (j_int(cfg, "cwdlen", 0) > 0 || j_int(cfg, "limit", 32) < 0 || j_int(cfg, "limit", 32) > 1024 /* (the crowded-caller points are replayed on the simulated kernel only) */) { j_put(v, "skipped", j_mkint(1)); emit(v); _exit(0); }
  /* descriptors */
  jv *fds = j_get(cfg, "fds");
  static const char *tn[3] = { "/t0", "/t1", "/t2" };
  for (int i = 0; i < 3; i++) {
    int open_ = fds && i < fds->n ? (int) fds->a[i]->i : 1;
    if (open_) { int f = open(mp(tn[i]), O_RDWR); dup2(f, i); if (f != i) close(f); } else close(i);
  }
  jv *ex = j_get(cfg, "extra");
  for (int i = 0; ex && i < ex->n; i++) {
    int fd = (int) ex->a[i]->a[0]->i; char nm[32]; snprintf(nm, sizeof nm, "/%s", ex->a[i]->a[2]->s);
    if (!strcmp(nm, "/hp")) { int pp[2]; if (pipe(pp) == 0) { close(pp[1]); if (pp[0] != fd) { dup2(pp[0], fd); close(pp[0]); } } if (ex->a[i]->a[1]->i) fcntl(fd, F_SETFD, FD_CLOEXEC); continue; }   /* a hung-up pipe end */
    int f = open(mp(nm), O_RDWR | O_CREAT, 0600); dup2(f, fd); if (f != fd) close(f);
    if (ex->a[i]->a[1]->i) fcntl(fd, F_SETFD, FD_CLOEXEC);
  }
  struct rlimit rl = { (rlim_t) j_int(cfg, "limit", 32), (rlim_t) 4096 }; setrlimit(RLIMIT_NOFILE, &rl);
  if (chdir(mp(j_str(cfg, "cwd", "/w"))) != 0) _exit(2);
  jv *env = j_get(cfg, "env");
  static char *envv[64]; int ne = 0; for (int i = 0; env && i < env->n && ne < 63; i++) envv[ne++] = j_pct_decode(strdup(env->a[i]->s)); envv[ne] = NULL; environ = envv;
  jv *m = j_get(cfg, "mask"); sigset_t ms; sigemptyset(&ms); for (int i = 0; m && i < m->n; i++) sigaddset(&ms, (int) m->a[i]->i); sigprocmask(SIG_SETMASK, &ms, NULL);
  jv *d = j_get(cfg, "disp");
  for (int i = 0; d && i < d->n; i++) { struct sigaction sa; memset(&sa, 0, sizeof sa); sa.sa_handler = d->a[i]->a[1]->i == 1 ? SIG_IGN : noop_handler; sigaction((int) d->a[i]->a[0]->i, &sa, NULL); }
  reproc_t *H[4] = { 0 };
  for (int pos = 1; pos < s->n; pos++) {
    jv *st = s->a[pos];
    if (strcmp(j_str(st, "e", ""), "call")) continue;
    const char *fn = j_str(st, "fn", ""); int h = (int) j_int(st, "h", 0);
    if (!strcmp(fn, "new")) H[h] = reproc_new();
    else if (!strcmp(fn, "pchdir")) { if (chdir(mp(j_str(st, "dir", "/"))) != 0) _exit(2); }
    else if (!strcmp(fn, "psetenv")) { jv *e2 = j_get(st, "env"); ne = 0; for (int i = 0; e2 && i < e2->n && ne < 63; i++) envv[ne++] = j_pct_decode(strdup(e2->a[i]->s)); envv[ne] = NULL; }
    else if (!strcmp(fn, "plimit")) {
      struct rlimit r2 = { (rlim_t) j_int(st, "limit", 64), 4096 }; setrlimit(RLIMIT_NOFILE, &r2);
      jv *op = j_get(st, "open");
      for (int i = 0; op && i < op->n; i++) { int fd = (int) op->a[i]->i; char nm[32]; snprintf(nm, sizeof nm, "/o%d", fd); int f = open(mp(nm), O_RDWR | O_CREAT, 0600); dup2(f, fd); if (f != fd) close(f); }
    }
    else if (!strcmp(fn, "pclose")) { jv *l = j_get(st, "fds"); for (int i = 0; l && i < l->n; i++) close((int) l->a[i]->i); }
    else if (!strcmp(fn, "psig")) {
      jv *m2 = j_get(st, "mask"), *d2 = j_get(st, "disp");
      sigset_t ms2; sigemptyset(&ms2); for (int i = 0; m2 && i < m2->n; i++) sigaddset(&ms2, (int) m2->a[i]->i); sigprocmask(SIG_SETMASK, &ms2, NULL);
      for (int i = 0; d2 && i < d2->n; i++) { struct sigaction sa; memset(&sa, 0, sizeof sa); sa.sa_handler = d2->a[i]->a[1]->i == 1 ? SIG_IGN : noop_handler; sigaction((int) d2->a[i]->a[0]->i, &sa, NULL); }
    }
    else if (!strcmp(fn, "start")) {
      jv *o = j_get(st, "o");
      jv *av0 = j_get(st, "argv");
      if (j_int(o, "fork", 0) || (av0 && av0->n && !strchr(av0->a[0]->s, '/'))) { j_put(v, "skipped", j_mkint(1)); break; }  /* fork mode; PATH-searched names */
      jv *exp = pos + 1 < s->n && !strcmp(j_str(s->a[pos + 1], "e", ""), "ret") ? s->a[pos + 1] : NULL;
      if (do_start(H[h], st, exp, v, idx)) { j_put(v, "script", s); break; }
    }
  }
  emit(v);
  _exit(0);
}

int main(int argc, char **argv)
{
  if (argc < 2) return 2;
  ROOT = argv[1];
  signal(SIGPIPE, SIG_IGN);
  dup2(1, VFD); fcntl(VFD, F_SETFD, FD_CLOEXEC);
  { struct stat st; if (stat("/dev/null", &st) == 0) null_rdev = st.st_rdev; }
  static const char *kn[] = { "t0", "t1", "t2", "o5", "o6", "o9", "o11", "o30", "o31", "o50", "o63" };
  for (unsigned i = 0; i < sizeof kn / sizeof *kn; i++) { char p[64]; snprintf(p, sizeof p, "/%s", kn[i]); know(kn[i], mp(p)); }
  char *line = NULL; size_t cap = 0; ssize_t len; int idx = 0;
  while ((len = getline(&line, &cap, stdin)) > 0) {
    if (len < 3) continue;
    idx++;
    if (!strncmp(line, "<<\"BEH\", \"", 10)) { char *o = line, *q = line + 10; while (*q && !(q[0] == '"' && q[1] == '>' && q[2] == '>')) { if (*q == '\\' && q[1]) q++; *o++ = *q++; } *o = 0; }
    pid_t c = fork();
    if (c == 0) {
      j_reset(); const char *err; jv *s = j_parse(line, &err);
      if (!s) _exit(2);
      /* the output file of path redirects is created on demand: make it known when it exists */
      { int f = open(mp("/d/f"), O_RDWR | O_CREAT, 0600); if (f >= 0) close(f); know("/d/f", mp("/d/f")); }
      run(s, idx);
      _exit(0);
    }
    int st = 0; waitpid(c, &st, 0);
    if (!WIFEXITED(st) || WEXITSTATUS(st) != 0) { char b[128]; int n = snprintf(b, sizeof b, "{\"i\":%d,\"ok\":0,\"kind\":\"%s\",\"status\":%d,\"real\":1}\n", idx, WIFEXITED(st) && WEXITSTATUS(st) == 2 ? "infra" : "crash", st); if (write(VFD, b, (size_t) n) < 0) return 2; }
  }
  return 0;
}
