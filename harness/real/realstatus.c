/* C01 on the real kernel: every exit code 0..255 and every terminating signal with a real child; the status must be
 * exact, stable, and the child reaped exactly once (no zombie, no second reap, nothing signalled afterwards).
 *   realstatus <path of vchild>  -> one JSON record per case (validated by spec/RealStatus.tla) */
#define _GNU_SOURCE
#include <errno.h>
#include <signal.h>
#include <stdio.h>
#include <stdlib.h>
#include <string.h>
#include <sys/stat.h>
#include <sys/wait.h>
#include <unistd.h>
#include <reproc/reproc.h>

extern pid_t __real_waitpid(pid_t, int *, int);
extern int __real_kill(pid_t, int);
static int watch_pid, reaps, kills_after, reaped;
pid_t __wrap_waitpid(pid_t p, int *st, int o) { pid_t r = __real_waitpid(p, st, o); if (p == watch_pid && r == p) { reaps++; reaped = 1; } else if (p == watch_pid && reaped) reaps++; return r; }
int __wrap_kill(pid_t p, int s) { if (p == watch_pid && reaped) kills_after++; return __real_kill(p, s); }

int main(int argc, char **argv)
{
  if (argc < 2) return 2;
  static const int sigs[] = { 1, 2, 3, 4, 5, 6, 7, 8, 9, 10, 11, 12, 13, 14, 15, 16, 24, 25, 26, 27, 29, 30, 31 };
  int id = 0;
  for (int pass = 0; pass < 2; pass++) {
    int n = pass == 0 ? 256 : (int) (sizeof sigs / sizeof *sigs);
    for (int i = 0; i < n; i++) {
      int val = pass == 0 ? i : sigs[i];
      char num[16]; snprintf(num, sizeof num, "%d", val);
      const char *av[] = { argv[1], pass == 0 ? "exit" : "raise", num, NULL };
      reproc_t *p = reproc_new();
      reproc_options o = { 0 };
      o.redirect.discard = true;
      int r = reproc_start(p, av, o);
      if (r < 0) { printf("{\"id\":%d,\"kind\":\"startfail\",\"n\":%d,\"r1\":%d,\"r2\":0,\"r3\":0,\"t\":0,\"k\":0,\"zombie\":0,\"reaps\":0,\"kills\":0}\n", ++id, val, r); reproc_destroy(p); continue; }
      watch_pid = reproc_pid(p); reaps = 0; kills_after = 0; reaped = 0;
      int r1 = reproc_wait(p, REPROC_INFINITE);
      int r2 = reproc_wait(p, 0);
      reproc_stop_actions sa = { { REPROC_STOP_KILL, 0 }, { REPROC_STOP_TERMINATE, 5 }, { REPROC_STOP_NOOP, 0 } };
      int r3 = reproc_stop(p, sa);
      int t = reproc_terminate(p), k = reproc_kill(p);
      char proc[64]; snprintf(proc, sizeof proc, "/proc/%d", watch_pid);
      struct stat st; int zombie = stat(proc, &st) == 0;   /* a reaped child has no /proc entry any more */
      reproc_destroy(p);
      printf("{\"id\":%d,\"kind\":\"%s\",\"n\":%d,\"r1\":%d,\"r2\":%d,\"r3\":%d,\"t\":%d,\"k\":%d,\"zombie\":%d,\"reaps\":%d,\"kills\":%d}\n",
             ++id, pass == 0 ? "exit" : "sig", val, r1, r2, r3, t, k, zombie, reaps, kills_after);
    }
  }
  return 0;
}
