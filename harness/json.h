/* tiny JSON reader/writer for the harness (arena allocated, ints only) */
#ifndef VJSON_H
#define VJSON_H
#include <stddef.h>

enum jtype { J_NULL, J_BOOL, J_INT, J_STR, J_ARR, J_OBJ };
typedef struct jv {
  enum jtype t;
  long i;            /* int / bool */
  const char *s;     /* string (NUL terminated, unescaped) */
  int n;             /* elements / members */
  struct jv **a;     /* array elements or object values */
  const char **k;    /* object keys */
} jv;

jv *j_parse(const char *text, const char **err); /* allocates from the json arena */
void j_reset(void);                               /* free everything parsed so far */
jv *j_get(const jv *o, const char *key);          /* NULL if absent */
long j_int(const jv *o, const char *key, long dflt);
const char *j_str(const jv *o, const char *key, const char *dflt);
int j_eq(const jv *a, const jv *b);

/* builders (same arena) */
jv *j_mkint(long v);
jv *j_mkstr(const char *s);
/* Arbitrary bytes in argument / environment strings: the scripts (TLA+ strings, JSON) stay ASCII and write a byte that is
 * not printable ASCII as %XX (and '%' itself as %25); the harness decodes before it calls the library and encodes what the
 * child received before it compares. */
char *j_pct_decode(char *s);             /* in place; returns s */
char *j_pct_encode(const char *s);       /* malloc'd */
jv *j_mkarr(void);
jv *j_mkobj(void);
void j_push(jv *arr, jv *v);
void j_put(jv *obj, const char *key, jv *v);

/* serialise into buf (returns length, truncates safely) */
size_t j_print(const jv *v, char *buf, size_t cap);
#endif
