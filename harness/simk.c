/* simk.c — simulated kernel behind -Wl,--wrap (see simk.h, DESIGN.md 4.2) */
#define _GNU_SOURCE
#include "simk.h"
#include <errno.h>
#include <fcntl.h>
#include <limits.h>
#include <poll.h>
#include <signal.h>
#include <stdarg.h>
#include <stdio.h>
#include <stdlib.h>
#include <string.h>
#include <sys/mman.h>
#include <sys/resource.h>
#include <sys/wait.h>
#include <time.h>
#include <unistd.h>
#include <dirent.h>

struct sk_kernel *K;
size_t sk_arena_size;
int (*sk_env_pull)(void);
void (*sk_yield_hook)(int kind);
void (*sk_on_fork)(int proc);      /* driver: a child was just created for K->cur_handle (its scripted behaviour can be attached at once) */
void (*sk_on_term_later)(int handle); /* free-running mode: a child that dies some time after SIGTERM received it */ /* C20: called at the entry of every kernel-relevant call made by the parent process */
void (*sk_on_hang)(const char *what);
int sk_cur = 0;  /* process index this REAL process is executing as (0 = parent) */
static int arena_used;

/* ---- real functions ---- */
extern pid_t __real_fork(void);
extern pid_t __real_waitpid(pid_t, int *, int);
extern void __real__exit(int) __attribute__((noreturn));
extern void *__real_malloc(size_t);
extern void *__real_calloc(size_t, size_t);
extern void *__real_realloc(void *, size_t);
extern void __real_free(void *);
extern char *__real_strdup(const char *);
extern int __real_sigfillset(sigset_t *);
extern int __real_sigemptyset(sigset_t *);
extern int __real_fileno(FILE *);
extern int __real_getrlimit(int, struct rlimit *);
extern int __real_clock_gettime(clockid_t, struct timespec *);

#define SIDE (sk_cur == 0 ? 0 : 1)
#define ME (&K->proc[sk_cur])

void sk_init(size_t arena)
{
  size_t total = sizeof(struct sk_kernel) + arena;
  if (K == NULL) {
    K = mmap(NULL, total, PROT_READ | PROT_WRITE, MAP_SHARED | MAP_ANONYMOUS, -1, 0);
    if (K == MAP_FAILED) { perror("mmap"); __real__exit(2); }
    sk_arena_size = arena;
  } else {
    memset(K, 0, sizeof(struct sk_kernel));
  }
  arena_used = 0;
  sk_cur = 0;
  K->nextpid = 1000;
  K->rlimit_nofile = 64;
  K->pipecap = 4;
  K->nstr = 1; /* offset 0 = "" */
  for (int p = 0; p < SK_MAXPROC; p++)
    for (int i = 0; i < SK_MAXFD; i++) K->proc[p].fd[i].ofd = -1;
  K->proc[0].state = PS_RUNNING;
  K->proc[0].pid = 999;
  K->proc[0].cwd = sk_str("/w");
}

int sk_str(const char *s)
{
  size_t n = strlen(s) + 1;
  if (K->nstr + (int) n > SK_MAXSTR) { fprintf(stderr, "simk: string arena full\n"); __real__exit(2); }
  int off = K->nstr;
  memcpy(K->str + off, s, n);
  K->nstr += (int) n;
  return off;
}

int sk_strlist(char *const *l, int *n)
{
  int first = K->nstr, c = 0;
  if (l) for (; l[c]; c++) sk_str(l[c]);
  *n = c;
  return first;
}

void sk_logev(int kind, int a, int b, int c, int r)
{
  if (K->nlog >= SK_MAXLOG) { K->log_overflow = 1; return; }
  struct sk_log *e = &K->log[K->nlog++];
  e->kind = kind; e->side = SIDE; e->a = a; e->b = b; e->c = c; e->r = r; e->t = K->now;
}

void sk_mon(int code, int a, int b) { sk_logev(LK_MON, code, a, b, 0); }

unsigned char sk_pattern(int tag, long off)
{
  /* tag 0 (stdin direction): full-period pattern; tags 1/2 (stdout/stderr): self-describing
   * bytes so that a reader can tell the origin and the position modulo 120 of every byte */
  if (tag == 0) return (unsigned char) (1 + ((off * 7 + (off >> 8) * 3) % 255));
  return (unsigned char) (1 + (tag - 1) * 120 + off % 120);
}

/* ---- fault injection ---- */
#define FK_WAITPID_ 10
static int fault(int kind)
{
  if (K && sk_cur == 0 && sk_yield_hook && K->in_api &&
      (kind == 1 || kind == 2 || kind == 3 || kind == 4 || kind == 5 || kind == 6 || kind == 7 || kind == 8 || kind == 9 || kind == 10 || kind == 11))
    sk_yield_hook(kind);
  if (!K || !K->in_api) return 0;
  int side = SIDE;
  if (side == 0 && K->gfault_index > 0) {
    /* script-wide fault plan: the g-th fault point of the whole script (any API call, parent side) fails once,
       with an errno plausible for that kind of call */
    static const int plausible[21] = { 0, EMFILE, EINTR, EINTR, EINTR, EINTR, EINVAL, EMFILE, EINTR, EAGAIN, EINTR, EPERM, ENOEXEC, EACCES, ENOENT, EINVAL, EFAULT, EINVAL, EINVAL, EINVAL, ENOMEM };
    if (++K->gcount == K->gfault_index) {
      K->gfault_kind = kind; K->fault_hits++;
      if (kind == FK_WAITPID_ && (K->gfault_index & 1) == 0) return ECHILD;   /* (the kernel reaped the child itself - a caller that ignores SIGCHLD - every other time) */
      return plausible[kind < 21 ? kind : 0] ? plausible[kind < 21 ? kind : 0] : EIO;
    }
  } else if (side == 0) K->gcount++;
  int n = ++K->callno[side];
  sk_logev(LK_OTHER, kind, n, 0, 0);
  for (int i = 0; i < K->nfault; i++)
    if (K->fault[i].side == side && K->fault[i].index == n) {
      K->fault_hits++;
      return K->fault[i].err;
    }
  return 0;
}
/* kinds of fault point (also exported to the driver through the log: a = kind, b = index) */
enum { FK_PIPE = 1, FK_CLOSE, FK_READ, FK_WRITE, FK_POLL, FK_FCNTL, FK_OPEN, FK_DUP2, FK_FORK, FK_WAITPID,
       FK_KILL, FK_EXEC, FK_CHDIR, FK_GETCWD, FK_GETRLIMIT, FK_SIGACTION, FK_SIGMASK, FK_SIGSET, FK_CLOCK,
       FK_ALLOC };

/* ---- objects, open file descriptions, descriptors ---- */
int sk_new_obj(int kind, int cap)
{
  for (int i = 1; i < SK_MAXOBJ; i++)
    if (K->obj[i].kind == OK_FREE) {
      struct sk_obj *o = &K->obj[i];
      memset(o, 0, sizeof *o);
      o->kind = kind;
      if (kind == OK_PIPE) {
        o->cap = cap;
        if ((size_t) arena_used + (size_t) cap > sk_arena_size) { fprintf(stderr, "simk: arena full\n"); __real__exit(2); }
        o->bufoff = arena_used;
        arena_used += cap;
      }
      return i;
    }
  fprintf(stderr, "simk: object table full\n");
  __real__exit(2);
}

static int new_ofd(int obj, int acc)
{
  for (int i = 0; i < SK_MAXOFD; i++)
    if (!K->ofd[i].used) {
      struct sk_ofd *f = &K->ofd[i];
      f->used = 1; f->obj = obj; f->acc = acc; f->nonblock = 0; f->ref = 0;
      if (acc == 0 || acc == 2) K->obj[obj].readers++;
      if (acc == 1 || acc == 2) K->obj[obj].writers++;
      return i;
    }
  fprintf(stderr, "simk: ofd table full\n");
  __real__exit(2);
}

static void ofd_unref(int i)
{
  struct sk_ofd *f = &K->ofd[i];
  if (--f->ref > 0) return;
  if (f->acc == 0 || f->acc == 2) K->obj[f->obj].readers--;
  if (f->acc == 1 || f->acc == 2) K->obj[f->obj].writers--;
  f->used = 0;
}

static int limit(void) { int l = K->rlimit_nofile; return (l < 0 || l > SK_MAXFD) ? SK_MAXFD : l; }

static int lowest_free(struct sk_proc *p, int from)
{
  int l = limit();
  for (int i = from; i < l; i++) if (p->fd[i].ofd < 0) return i;
  return -1;
}

static void fd_set_ofd(struct sk_proc *p, int fd, int ofd, int cloexec, int owner)
{
  p->fd[fd].ofd = ofd; p->fd[fd].cloexec = cloexec; p->fd[fd].owner = owner;
  K->ofd[ofd].ref++;
}

/* harness: make descriptor newfd of process pi another name for the open file description behind oldfd (as dup2 would) */
void sk_dup_to(int pi, int oldfd, int newfd, int cloexec, int owner)
{
  struct sk_proc *p = &K->proc[pi];
  if (p->fd[oldfd].ofd >= 0 && p->fd[newfd].ofd < 0) fd_set_ofd(p, newfd, p->fd[oldfd].ofd, cloexec, owner);
}

static void fd_close(struct sk_proc *p, int fd)
{
  int o = p->fd[fd].ofd;
  p->fd[fd].ofd = -1; p->fd[fd].cloexec = 0; p->fd[fd].owner = 0;
  ofd_unref(o);
}

int sk_install(int proc, int fd, int obj, int acc, int cloexec, int owner)
{
  int o = new_ofd(obj, acc);
  fd_set_ofd(&K->proc[proc], fd, o, cloexec, owner);
  return o;
}

int sk_nfds(int p)
{
  int n = 0;
  for (int i = 0; i < SK_MAXFD; i++) if (K->proc[p].fd[i].ofd >= 0) n++;
  return n;
}

int sk_proc_by_pid(int pid)
{
  for (int i = 1; i < SK_MAXPROC; i++)
    if (K->proc[i].state != PS_FREE && K->proc[i].pid == pid) return i;
  return -1;
}

void sk_fs_add(const char *path, int flags)
{
  if (K->nfs >= 32) return;
  K->fs[K->nfs].path = sk_str(path);
  K->fs[K->nfs].flags = flags;
  K->nfs++;
}
static char fs_joined[8300];
static const char *fs_resolve(const char *path0)
{
  /* a relative name with a directory part is resolved against the working directory of the process that uses it
     (a bare name is looked up as it is: PATH search is not modelled) */
  if (path0[0] != '/' && strchr(path0, '/') && K->cwdlen_override == 0) {
    const char *cwd = K->str + ME->cwd;
    if (strlen(cwd) + strlen(path0) + 2 < sizeof fs_joined) { snprintf(fs_joined, sizeof fs_joined, "%s%s%s", cwd, strcmp(cwd, "/") ? "/" : "", path0); return fs_joined; }
  }
  return path0;
}
static int fs_lookup(const char *path0)
{
  const char *path = fs_resolve(path0);
  for (int i = 0; i < K->nfs; i++) if (strcmp(K->str + K->fs[i].path, path) == 0) return K->fs[i].flags;
  /* FS_SUFFIX entries match any path that ends with them (used with synthetic, very long working directories) */
  size_t pl = strlen(path);
  for (int i = 0; i < K->nfs; i++) {
    const char *e = K->str + K->fs[i].path;
    size_t el = strlen(e);
    if ((K->fs[i].flags & FS_SUFFIX) && pl >= el && strcmp(path + pl - el, e) == 0) return K->fs[i].flags;
  }
  return 0;
}

/* ---- blocking ---- */
int sk_interrupt;   /* set by an environment step: the blocking call in progress fails with EINTR */
static void block_on(const char *what)
{
  int t0 = K->now;
  if (sk_cur != 0) { /* the library's child-side code must never block */
    K->hang = 1;
    fprintf(stderr, "simk: child side blocks in %s\n", what);
    __real__exit(3);
  }
  if (!sk_env_pull || !sk_env_pull()) {
    K->hang = 1;
    if (sk_on_hang) sk_on_hang(what);
    fprintf(stderr, "simk: HANG in %s\n", what);
    __real__exit(3);
  }
  K->blocked_ticks += K->now - t0;
}

/* ---- process end ---- */
void sk_child_exit(int pi, int status_word)
{
  struct sk_proc *p = &K->proc[pi];
  if (p->state != PS_RUNNING && p->state != PS_FORKING) return;
  for (int i = 0; i < SK_MAXFD; i++) if (p->fd[i].ofd >= 0) fd_close(p, i);
  p->state = PS_ZOMBIE;
  p->status = status_word;
  /* a parent that ignores SIGCHLD gets no zombies: the kernel reaps the child at once and its status is gone */
  if (K->proc[0].disp[SIGCHLD] == 1) { p->state = PS_REAPED; p->autoreaped = 1; }
}

/* the child ends but its descriptors stay open in a descendant that lives on */
void sk_child_exit_keep(int pi, int status_word)
{
  struct sk_proc *p = &K->proc[pi];
  if (p->state != PS_RUNNING && p->state != PS_FORKING) return;
  p->state = PS_ZOMBIE;
  p->status = status_word;
}
/* ... and that descendant ends too */
void sk_grand_gone(int pi)
{
  struct sk_proc *p = &K->proc[pi];
  for (int i = 0; i < SK_MAXFD; i++) if (p->fd[i].ofd >= 0) fd_close(p, i);
}

void sk_child_close(int pi, int fd)
{
  struct sk_proc *p = &K->proc[pi];
  if (fd >= 0 && fd < SK_MAXFD && p->fd[fd].ofd >= 0) fd_close(p, fd);
}

/* raw pipe transfer helpers */
static int pipe_put(struct sk_obj *o, const unsigned char *b, int n)
{
  int room = o->cap - o->len;
  if (n > room) n = room;
  unsigned char *buf = K->arena + o->bufoff;
  for (int i = 0; i < n; i++) buf[(o->head + o->len + i) % o->cap] = b[i];
  o->len += n; o->total_w += n;
  return n;
}
static int pipe_get(struct sk_obj *o, unsigned char *b, int n)
{
  if (n > o->len) n = o->len;
  unsigned char *buf = K->arena + o->bufoff;
  for (int i = 0; i < n; i++) b[i] = buf[(o->head + i) % o->cap];
  o->head = (o->head + n) % o->cap; o->len -= n; o->total_r += n;
  return n;
}

/* packet mode */
static void pk_push(struct sk_obj *o, int n) { if (o->direct && n > 0 && o->pkn < 128) { o->pk[(o->pkh + o->pkn) % 128] = (unsigned short) n; o->pkn++; } }
static int pk_room(struct sk_obj *o) { return !o->direct || o->pkn < 128; }
/* one read(2) of up to n bytes */
static int pipe_read(struct sk_obj *o, unsigned char *b, int n)
{
  if (!o->direct || o->pkn == 0) return pipe_get(o, b, n);
  int plen = o->pk[o->pkh]; o->pkh = (o->pkh + 1) % 128; o->pkn--;
  int take = n < plen ? n : plen;
  int got = pipe_get(o, b, take);
  unsigned char junk;
  for (int i = take; i < plen; i++) pipe_get(o, &junk, 1);
  return got;
}

int sk_child_write(int pi, int fd, int n, int tag, long *offp)
{
  struct sk_proc *p = &K->proc[pi];
  /* (a process that has ended holds descriptors only on behalf of a descendant that inherited them: that one writes) */
  if ((p->state != PS_RUNNING && p->state != PS_ZOMBIE && p->state != PS_REAPED) || p->fd[fd].ofd < 0) return -1;
  struct sk_ofd *f = &K->ofd[p->fd[fd].ofd];
  struct sk_obj *o = &K->obj[f->obj];
  if (f->acc == 0) return -1;
  if (o->kind != OK_PIPE) { *offp += n; return n; }
  if (o->readers == 0) return -2;
  int done = 0;
  while (done < n && o->len < o->cap && pk_room(o)) {
    unsigned char c = sk_pattern(tag, *offp);
    pipe_put(o, &c, 1);
    (*offp)++; done++;
  }
  pk_push(o, done);
  return done;
}

int sk_child_read(int pi, int fd, int n)
{
  struct sk_proc *p = &K->proc[pi];
  if (p->state != PS_RUNNING || p->fd[fd].ofd < 0) return -1;
  struct sk_ofd *f = &K->ofd[p->fd[fd].ofd];
  struct sk_obj *o = &K->obj[f->obj];
  if (f->acc == 1) return -1;
  if (o->kind != OK_PIPE) { p->stdin_eof = 1; return 0; }
  int done = 0;
  if (o->direct && o->pkn > 0 && n > 0) {   /* one read of a packet-mode pipe */
    unsigned char tmp[4096];
    int got = pipe_read(o, tmp, n > 4096 ? 4096 : n);
    for (int i = 0; i < got; i++) { if (tmp[i] != sk_pattern(0, p->stdin_read)) p->stdin_bad = 1; p->stdin_read++; }
    done = got;
  } else
  while (done < n && o->len > 0) {
    unsigned char c;
    pipe_get(o, &c, 1);
    if (c != sk_pattern(0, p->stdin_read)) p->stdin_bad = 1;
    p->stdin_read++; done++;
  }
  if (done == 0 && n > 0 && o->writers == 0) p->stdin_eof = 1;
  return done;
}

/* ---- readiness ---- */
int sk_revents(int pi, int fd, int events)
{
  struct sk_proc *p = &K->proc[pi];
  if (fd < 0) return 0;
  if (fd >= SK_MAXFD || p->fd[fd].ofd < 0) return POLLNVAL;
  struct sk_ofd *f = &K->ofd[p->fd[fd].ofd];
  struct sk_obj *o = &K->obj[f->obj];
  int r = 0;
  if (o->kind == OK_PIPE) {
    if (f->acc == 0) {
      if (o->len > 0) r |= POLLIN;
      if (o->writers == 0) r |= POLLHUP;
    } else {
      /* as Linux: POLLERR when no reader is left, POLLOUT only while there is room (a full pipe
         whose reader has gone reports POLLERR alone) */
      if (o->readers == 0) r |= POLLERR;
      if (o->len < o->cap) r |= POLLOUT;
    }
  } else {
    r |= POLLIN | POLLOUT;
  }
  return r & (events | POLLHUP | POLLERR | POLLNVAL);
}

/* ======================= wrapped calls ======================= */

int __wrap_pipe(int pair[2])
{
  int e = fault(FK_PIPE);
  if (e) { errno = e; return -1; }
  struct sk_proc *p = ME;
  int a = lowest_free(p, 0);
  if (a < 0) { errno = EMFILE; return -1; }
  int b = lowest_free(p, a + 1);
  if (b < 0) { errno = EMFILE; return -1; }
  int o = sk_new_obj(OK_PIPE, K->pipecap);
  sk_install(sk_cur, a, o, 0, 0, K->in_api);
  sk_install(sk_cur, b, o, 1, 0, K->in_api);
  pair[0] = a; pair[1] = b;
  sk_logev(LK_PIPE, a, b, o, 0);
  return 0;
}

int __wrap_pipe2(int pair[2], int flags)
{
  int r = __wrap_pipe(pair);
  if (r < 0) return r;
  struct sk_proc *p = ME;
  if (flags & O_CLOEXEC) { p->fd[pair[0]].cloexec = 1; p->fd[pair[1]].cloexec = 1; }
  if (flags & O_NONBLOCK) { K->ofd[p->fd[pair[0]].ofd].nonblock = 1; K->ofd[p->fd[pair[1]].ofd].nonblock = 1; }
  if (flags & O_DIRECT) K->obj[K->ofd[p->fd[pair[0]].ofd].obj].direct = 1;
  return 0;
}

/* the process's own descriptor directory opened as a plain descriptor (see __wrap_open) */
static struct { int used, proc, fd, n, pos; int ents[SK_MAXFD + 2]; } rawdir[4];
int __wrap_close(int fd)
{
  int e = fault(FK_CLOSE);
  struct sk_proc *p = ME;
  if (fd < 0 || fd >= SK_MAXFD || p->fd[fd].ofd < 0) {
    if (K->in_api) sk_mon(MON_CLOSE_BADF, fd, 0);
    sk_logev(LK_CLOSE, fd, 0, 0, -EBADF);
    errno = EBADF;
    return -1;
  }
  if (K->in_api && sk_cur == 0 && p->fd[fd].owner == 0) sk_mon(MON_CLOSE_FOREIGN, fd, 0);
  sk_logev(LK_CLOSE, fd, K->ofd[p->fd[fd].ofd].obj, 0, 0);
  for (int i = 0; i < 4; i++) if (rawdir[i].used && rawdir[i].proc == sk_cur && rawdir[i].fd == fd) rawdir[i].used = 0;
  fd_close(p, fd);
  if (e) { errno = e; return -1; } /* Linux: the descriptor is released even when close() fails */
  return 0;
}

ssize_t __wrap_read(int fd, void *buf, size_t n)
{
  int e = fault(FK_READ);
  if (e) { errno = e; return -1; }
  struct sk_proc *p = ME;
  if (fd < 0 || fd >= SK_MAXFD || p->fd[fd].ofd < 0) {
    if (K->in_api) sk_mon(MON_USE_BADF, fd, 1);
    errno = EBADF; return -1;
  }
  struct sk_ofd *f = &K->ofd[p->fd[fd].ofd];
  struct sk_obj *o = &K->obj[f->obj];
  if (f->acc == 1) { errno = EBADF; return -1; }
  if (o->kind != OK_PIPE) { sk_logev(LK_READ, fd, 0, 0, 0); return 0; }
  int first = 1;
  for (;;) {
    if (o->len > 0 || n == 0) {
      int got = n == 0 ? 0 : pipe_read(o, buf, n > (size_t) INT_MAX ? INT_MAX : (int) n);
      sk_logev(LK_READ, fd, (int) n, 0, got);
      return got;
    }
    if (o->writers == 0) { sk_logev(LK_READ, fd, (int) n, 0, 0); return 0; }
    if (f->nonblock) { errno = EAGAIN; return -1; }
    if (first) { K->blocks++; sk_logev(LK_BLOCK, LK_READ, fd, 0, 0); first = 0; }
    block_on("read");
    if (sk_interrupt) { sk_interrupt = 0; errno = EINTR; return -1; }
  }
}

ssize_t __wrap_write(int fd, const void *buf, size_t n)
{
  int e = fault(FK_WRITE);
  if (e) { errno = e; return -1; }
  struct sk_proc *p = ME;
  if (fd < 0 || fd >= SK_MAXFD || p->fd[fd].ofd < 0) {
    if (K->in_api) sk_mon(MON_USE_BADF, fd, 2);
    errno = EBADF; return -1;
  }
  struct sk_ofd *f = &K->ofd[p->fd[fd].ofd];
  struct sk_obj *o = &K->obj[f->obj];
  if (f->acc == 0) { errno = EBADF; return -1; }
  if (o->kind != OK_PIPE) { sk_logev(LK_WRITE, fd, (int) n, 0, (int) n); return (ssize_t) n; }
  size_t done = 0;
  int first = 1;
  for (;;) {
    if (o->readers == 0) {
      if (done > 0) break;
      sk_logev(LK_WRITE, fd, (int) n, 0, -EPIPE);
      errno = EPIPE; return -1;
    }
    if (n == 0) break;
    size_t left = n - done;
    { int put_ = pk_room(o) ? pipe_put(o, (const unsigned char *) buf + done, left > (size_t) INT_MAX ? INT_MAX : (left > 4096 && o->direct ? 4096 : (int) left)) : 0; pk_push(o, put_); done += (size_t) put_; }
    if (done == n) break;
    if (f->nonblock) {
      if (done > 0) break;
      errno = EAGAIN; return -1;
    }
    if (first) { K->blocks++; sk_logev(LK_BLOCK, LK_WRITE, fd, 0, 0); first = 0; }
    block_on("write");
    if (sk_interrupt) { sk_interrupt = 0; if (done > 0) break; errno = EINTR; return -1; }
  }
  sk_logev(LK_WRITE, fd, (int) n, 0, (int) done);
  return (ssize_t) done;
}

int sk_block_until = SK_INF; /* absolute virtual time at which the current block ends (for free-running env) */

int __wrap_poll(struct pollfd *fds, nfds_t nfds, int timeout)
{
  int e = fault(FK_POLL);
  if (e) { errno = e; return -1; }
  int until = timeout < 0 ? SK_INF : K->now + timeout;
  int first = 1;
  for (;;) {
    int cnt = 0;
    for (nfds_t i = 0; i < nfds; i++) {
      fds[i].revents = (short) sk_revents(sk_cur, fds[i].fd, fds[i].events);
      if (fds[i].revents & POLLNVAL && K->in_api && first) sk_mon(MON_USE_BADF, fds[i].fd, 3);
      if (fds[i].revents) cnt++;
    }
    if (cnt > 0 || (until != SK_INF && K->now >= until)) {
      sk_logev(LK_POLL, (int) nfds, timeout, 0, cnt);
      sk_block_until = SK_INF;
      return cnt;
    }
    if (first) { K->blocks++; sk_logev(LK_BLOCK, LK_POLL, timeout, 0, 0); first = 0; }
    sk_block_until = until;
    block_on("poll");
    if (sk_interrupt) { sk_interrupt = 0; sk_block_until = SK_INF; errno = EINTR; return -1; }
  }
}

/* sleeping is waiting for virtual time: a blocking point like a poll without descriptors */
static int sleep_ms(long ms)
{
  if (ms <= 0) return 0;
  struct pollfd none = { -1, 0, 0 };
  return __wrap_poll(&none, 0, ms > 1000000 ? 1000000 : (int) ms) < 0 ? -1 : 0;
}
int __wrap_nanosleep(const struct timespec *req, struct timespec *rem)
{ if (rem) { rem->tv_sec = 0; rem->tv_nsec = 0; } return sleep_ms(req->tv_sec * 1000 + (req->tv_nsec + 999999) / 1000000); }
int __wrap_clock_nanosleep(clockid_t c, int flags, const struct timespec *req, struct timespec *rem)
{ (void) c; (void) flags; return __wrap_nanosleep(req, rem); }
int __wrap_usleep(unsigned usec) { return sleep_ms((usec + 999) / 1000); }
unsigned __wrap_sleep(unsigned sec) { sleep_ms((long) sec * 1000); return 0; }
int __wrap_sched_yield(void) { return 0; }

int __wrap_ppoll(struct pollfd *fds, nfds_t nfds, const struct timespec *ts, const sigset_t *ss)
{
  (void) ss;
  int timeout = ts ? (int) (ts->tv_sec * 1000 + ts->tv_nsec / 1000000) : -1;
  return __wrap_poll(fds, nfds, timeout);
}

static int do_dupfd(int fd, int from, int cloexec)
{
  struct sk_proc *p = ME;
  if (fd < 0 || fd >= SK_MAXFD || p->fd[fd].ofd < 0) { errno = EBADF; return -1; }
  if (from < 0 || from >= limit()) { errno = EINVAL; return -1; }
  int n = lowest_free(p, from);
  if (n < 0) { errno = EMFILE; return -1; }
  fd_set_ofd(p, n, p->fd[fd].ofd, cloexec, K->in_api);
  sk_logev(LK_DUP, fd, n, 0, n);
  return n;
}

int __wrap_fcntl(int fd, int cmd, ...)
{
  va_list ap;
  va_start(ap, cmd);
  int arg = va_arg(ap, int);
  va_end(ap);
  struct sk_proc *p = ME;
  if (cmd != F_GETFD) {
    int e = fault(FK_FCNTL);
    if (e) { errno = e; return -1; }
  }
  if (fd < 0 || fd >= SK_MAXFD || p->fd[fd].ofd < 0) { errno = EBADF; return -1; }
  struct sk_ofd *f = &K->ofd[p->fd[fd].ofd];
  switch (cmd) {
    case F_GETFD: return p->fd[fd].cloexec ? FD_CLOEXEC : 0;
    case F_SETFD: p->fd[fd].cloexec = (arg & FD_CLOEXEC) ? 1 : 0; sk_logev(LK_FCNTL, fd, cmd, arg, 0); return 0;
    case F_GETFL: return (f->acc == 0 ? O_RDONLY : f->acc == 1 ? O_WRONLY : O_RDWR) | (f->nonblock ? O_NONBLOCK : 0);
    case F_SETFL: f->nonblock = (arg & O_NONBLOCK) ? 1 : 0; sk_logev(LK_FCNTL, fd, cmd, arg, 0); return 0;
    case F_DUPFD: return do_dupfd(fd, arg, 0);
    case F_DUPFD_CLOEXEC: return do_dupfd(fd, arg, 1);
#ifdef F_SETPIPE_SZ
    /* the capacity of a pipe is what it is: an unprivileged process that asks for more than the system's maximum (here: the
       capacity every pipe has) is refused, asking for less changes nothing */
    case F_GETPIPE_SZ: { struct sk_obj *o = &K->obj[f->obj]; if (o->kind != OK_PIPE) { errno = EBADF; return -1; } return o->cap; }
    case F_SETPIPE_SZ: { struct sk_obj *o = &K->obj[f->obj]; if (o->kind != OK_PIPE) { errno = EBADF; return -1; }
                         if (arg > o->cap) { errno = EPERM; return -1; } return o->cap; }
#endif
  }
  sk_mon(MON_UNSUPPORTED, LK_FCNTL, cmd);
  errno = EINVAL;
  return -1;
}

/* the process's own descriptor directory opened as a plain descriptor (open + getdents64), per real process */
static int is_fd_dir(const char *path) { return !strcmp(path, "/proc/self/fd") || !strcmp(path, "/dev/fd") || !strcmp(path, "/proc/self/fd/") || !strcmp(path, "/dev/fd/"); }
int __wrap_open(const char *path, int flags, ...)
{
  int e = fault(FK_OPEN);
  if (e) { errno = e; return -1; }
  struct sk_proc *p = ME;
  int obj;
  int acc = (flags & O_ACCMODE) == O_RDONLY ? 0 : (flags & O_ACCMODE) == O_WRONLY ? 1 : 2;
  if (is_fd_dir(path)) {
    int slot = -1;
    for (int i = 0; i < 4; i++) if (!rawdir[i].used) { slot = i; break; }
    int dfd = lowest_free(p, 0);
    if (slot < 0 || dfd < 0) { errno = EMFILE; return -1; }
    obj = sk_new_obj(OK_FILE, 0);
    K->obj[obj].pathid = sk_str(path);
    sk_install(sk_cur, dfd, obj, 0, (flags & O_CLOEXEC) ? 1 : 0, K->in_api);
    rawdir[slot].used = 1; rawdir[slot].proc = sk_cur; rawdir[slot].fd = dfd; rawdir[slot].n = 0; rawdir[slot].pos = 0;
    rawdir[slot].ents[rawdir[slot].n++] = -1; rawdir[slot].ents[rawdir[slot].n++] = -2;   /* "." and ".." */
    for (int i = 0; i < SK_MAXFD; i++) if (p->fd[i].ofd >= 0) rawdir[slot].ents[rawdir[slot].n++] = i;
    sk_logev(LK_OPEN, dfd, obj, 0, dfd);
    return dfd;
  }
  if (strcmp(path, "/dev/null") == 0) {
    obj = sk_new_obj(OK_NULL, 0);
  } else {
    int fl = fs_lookup(path);
    if (fl & FS_NOACCESS) { errno = EACCES; return -1; }
    if ((fl & FS_DIR) && acc != 0) { errno = EISDIR; return -1; }   /* (a directory can be opened for reading: fchdir, O_DIRECTORY) */
    if (!(fl & FS_EXISTS) && !(flags & O_CREAT)) { errno = ENOENT; return -1; }
    if ((flags & O_DIRECTORY) && !(fl & FS_DIR)) { errno = ENOTDIR; return -1; }
    if (!(fl & FS_EXISTS) && path[0] == '/' && strncmp(path, "/nodir/", 7) == 0) { errno = ENOENT; return -1; }
    obj = sk_new_obj(OK_FILE, 0);
    K->obj[obj].pathid = sk_str(path);
    K->obj[obj].abspath = sk_str(fs_resolve(path));
    K->obj[obj].fsflags = fl;
  }
  int fd = lowest_free(p, 0);
  if (fd < 0) { K->obj[obj].kind = OK_FREE; errno = EMFILE; return -1; }
  sk_install(sk_cur, fd, obj, acc, (flags & O_CLOEXEC) ? 1 : 0, K->in_api);
  sk_logev(LK_OPEN, fd, obj, acc, fd);
  return fd;
}
int __wrap_open64(const char *path, int flags, ...) { return __wrap_open(path, flags, 0); }

/* getdents64 on such a descriptor: whole records only, as many as fit (struct linux_dirent64 layout) */
static long sk_getdents64(int fd, void *buf, size_t size)
{
  for (int i = 0; i < 4; i++) if (rawdir[i].used && rawdir[i].proc == sk_cur && rawdir[i].fd == fd) {
    if (ME->fd[fd].ofd < 0) { rawdir[i].used = 0; break; }
    size_t off = 0;
    while (rawdir[i].pos < rawdir[i].n) {
      char name[16]; int v = rawdir[i].ents[rawdir[i].pos];
      if (v == -1) strcpy(name, "."); else if (v == -2) strcpy(name, ".."); else snprintf(name, sizeof name, "%d", v);
      size_t reclen = (19 + strlen(name) + 1 + 7) & ~(size_t) 7;
      if (off + reclen > size) break;
      unsigned char *r = (unsigned char *) buf + off;
      memset(r, 0, reclen);
      uint64_t ino = (uint64_t) (1000 + v); int64_t doff = rawdir[i].pos + 1; uint16_t rl = (uint16_t) reclen;
      memcpy(r, &ino, 8); memcpy(r + 8, &doff, 8); memcpy(r + 16, &rl, 2); r[18] = v < 0 ? 4 /* DT_DIR */ : 10 /* DT_LNK */;
      strcpy((char *) r + 19, name);
      off += reclen; rawdir[i].pos++;
    }
    if (off == 0 && rawdir[i].pos < rawdir[i].n) { errno = EINVAL; return -1; }
    return (long) off;
  }
  errno = EBADF; return -1;
}
extern long __real_syscall(long n, ...);
#include <sys/syscall.h>
#include <stdarg.h>
long __wrap_syscall(long n, ...)
{
  va_list ap; va_start(ap, n);
  long a1 = va_arg(ap, long), a2 = va_arg(ap, long), a3 = va_arg(ap, long), a4 = va_arg(ap, long), a5 = va_arg(ap, long), a6 = va_arg(ap, long);
  va_end(ap);
  if (K && n == SYS_getdents64) return sk_getdents64((int) a1, (void *) a2, (size_t) a3);
  if (K && K->in_api) { sk_mon(MON_UNSUPPORTED, LK_OTHER, (int) n); errno = ENOSYS; return -1; }
  return __real_syscall(n, a1, a2, a3, a4, a5, a6);
}
ssize_t __wrap_getdents64(int fd, void *buf, size_t size) { return (ssize_t) sk_getdents64(fd, buf, size); }

int __wrap_dup(int fd)
{
  int e = fault(FK_DUP2);
  if (e) { errno = e; return -1; }
  return do_dupfd(fd, 0, 0);
}

int __wrap_dup3(int oldfd, int newfd, int flags)
{
  int e = fault(FK_DUP2);
  if (e) { errno = e; return -1; }
  struct sk_proc *p = ME;
  if (oldfd < 0 || oldfd >= SK_MAXFD || p->fd[oldfd].ofd < 0) { errno = EBADF; return -1; }
  if (newfd < 0 || newfd >= limit()) { errno = EBADF; return -1; }
  if (oldfd == newfd) { if (flags == -1) return newfd; errno = EINVAL; return -1; }
  if (p->fd[newfd].ofd >= 0) fd_close(p, newfd);
  fd_set_ofd(p, newfd, p->fd[oldfd].ofd, (flags != -1 && (flags & O_CLOEXEC)) ? 1 : 0, K->in_api);
  sk_logev(LK_DUP, oldfd, newfd, 0, newfd);
  return newfd;
}
int __wrap_dup2(int oldfd, int newfd) { return __wrap_dup3(oldfd, newfd, -1); }

pid_t __wrap_fork(void)
{
  int e = fault(FK_FORK);
  if (e) { errno = e; return -1; }
  if (sk_cur != 0) { sk_mon(MON_UNSUPPORTED, LK_FORK, 0); errno = ENOSYS; return -1; }
  int pi = -1;
  for (int i = 1; i < SK_MAXPROC; i++) if (K->proc[i].state == PS_FREE) { pi = i; break; }
  if (pi < 0) { errno = EAGAIN; return -1; }
  struct sk_proc *c = &K->proc[pi], *p = &K->proc[0];
  memset(c, 0, sizeof *c);
  for (int i = 0; i < SK_MAXFD; i++) {
    c->fd[i] = p->fd[i];
    if (c->fd[i].ofd >= 0) K->ofd[c->fd[i].ofd].ref++;
  }
  c->mask = p->mask;
  memcpy(c->disp, p->disp, sizeof c->disp);
  c->cwd = p->cwd;
  c->pid = K->nextpid++;
  c->state = PS_FORKING;
  c->handle = K->cur_handle;
  c->term = TERM_IGN;
  if (sk_on_fork) sk_on_fork(pi);
  sk_logev(LK_FORK, c->pid, pi, 0, c->pid);
  fflush(NULL);
  pid_t real = __real_fork();
  if (real < 0) { perror("simk: real fork"); __real__exit(2); }
  if (real == 0) {
    sk_cur = pi;
    return 0;
  }
  int st = 0;
  while (__real_waitpid(real, &st, 0) < 0 && errno == EINTR) {}
  if (!WIFEXITED(st) || WEXITSTATUS(st) != 0 || c->state == PS_FORKING) {
    sk_mon(MON_CHILD_CRASH, st, c->state);
    if (c->state == PS_FORKING || c->state == PS_RUNNING) sk_child_exit(pi, SIGSEGV);
  }
  K->child_reports++;
  return c->pid;
}
pid_t __wrap_vfork(void) { return __wrap_fork(); }

static int do_exec_fl(const char *file, char *const argv[], char *const envp[], int fl);
static int do_exec(const char *file, char *const argv[], char *const envp[])
{
  int e = fault(FK_EXEC);
  if (e) { errno = e; return -1; }
  if (sk_cur == 0) { sk_mon(MON_UNSUPPORTED, LK_EXEC, 0); errno = ENOSYS; return -1; }
  if (strlen(file) >= 4096) { errno = ENAMETOOLONG; return -1; }
  return do_exec_fl(file, argv, envp, fs_lookup(file));
}
static int do_exec_fl(const char *file, char *const argv[], char *const envp[], int fl)
{
  if (!(fl & FS_EXISTS)) { errno = ENOENT; return -1; }
  if (fl & FS_DIR) { errno = EACCES; return -1; }
  if (!(fl & FS_EXEC)) { errno = EACCES; return -1; }
  struct sk_proc *p = ME;
  p->exec_fds_nonblock = 0;
  for (int i = 0; i < SK_MAXFD; i++)
    if (p->fd[i].ofd >= 0 && p->fd[i].cloexec) fd_close(p, i);
  for (int i = 0; i < 3; i++)
    if (p->fd[i].ofd >= 0 && K->ofd[p->fd[i].ofd].nonblock) p->exec_fds_nonblock |= 1 << i;
  p->prog = sk_str(file);
  p->argv = sk_strlist(argv, &p->nargv);
  p->env = sk_strlist(envp, &p->nenv);
  p->execd = 1;
  p->state = PS_RUNNING;
  /* exec resets caught signals to default, keeps ignored ones and the mask */
  for (int s = 1; s <= 64; s++) if (p->disp[s] == 2) p->disp[s] = 0;
  sk_logev(LK_EXEC, p->pid, 0, 0, 0);
  __real__exit(0);
}
extern char **environ;
int __wrap_execvp(const char *file, char *const argv[]) { return do_exec(file, argv, environ); }
int __wrap_execv(const char *file, char *const argv[]) { return do_exec(file, argv, environ); }
int __wrap_execve(const char *file, char *const argv[], char *const envp[]) { return do_exec(file, argv, envp); }
int __wrap_execvpe(const char *file, char *const argv[], char *const envp[]) { return do_exec(file, argv, envp); }
/* executing an open file: the file it names was settled when it was opened; the descriptor itself stays open across the exec unless it is close-on-exec */
int __wrap_fexecve(int fd, char *const argv[], char *const envp[])
{
  int e = fault(FK_EXEC);
  if (e) { errno = e; return -1; }
  if (sk_cur == 0) { sk_mon(MON_UNSUPPORTED, LK_EXEC, 0); errno = ENOSYS; return -1; }
  struct sk_proc *p = ME;
  if (fd < 0 || fd >= SK_MAXFD || p->fd[fd].ofd < 0) { errno = EBADF; return -1; }
  struct sk_obj *o = &K->obj[K->ofd[p->fd[fd].ofd].obj];
  if (o->kind != OK_FILE || !o->abspath) { errno = EACCES; return -1; }
  return do_exec_fl(K->str + o->abspath, argv, envp, o->fsflags);
}

void __wrap__exit(int status)
{
  if (K && sk_cur != 0) {
    sk_logev(LK_EXIT, status, 0, 0, 0);
    sk_child_exit(sk_cur, (status & 0xff) << 8);
    __real__exit(0);
  }
  __real__exit(status);
}
void __wrap__Exit(int status) { __wrap__exit(status); }

pid_t __wrap_waitpid(pid_t pid, int *status, int options)
{
  int e = fault(FK_WAITPID);
  if (e) { errno = e; return -1; }
  if (pid <= 0) {
    /* "any child": never legitimate for this library (C06) - flagged - but emulated faithfully so that the damage shows:
       some zombie child is reaped and its status taken away from the handle that owns it */
    sk_mon(MON_WAIT_ANY, pid, 0);
    int any = 0;
    for (int i = 1; i < SK_MAXPROC; i++) {
      struct sk_proc *c = &K->proc[i];
      if (c->state == PS_ZOMBIE) {
        c->state = PS_REAPED;
        if (status) *status = c->status;
        sk_logev(LK_WAITPID, pid, options, c->handle, c->pid);
        return c->pid;
      }
      if (c->state == PS_RUNNING) any = 1;
    }
    sk_logev(LK_WAITPID, pid, 0, 0, any ? 0 : -ECHILD);
    if (any && (options & WNOHANG)) return 0;
    errno = ECHILD; return -1;
  }
  int pi = sk_proc_by_pid(pid);
  if (pi >= 0 && K->proc[pi].state == PS_REAPED && K->proc[pi].autoreaped) {   /* reaped by the kernel: not the caller's doing */
    sk_logev(LK_WAITPID, pid, 0, 0, -ECHILD);
    errno = ECHILD; return -1;
  }
  if (pi < 0 || K->proc[pi].state == PS_REAPED) {
    sk_mon(MON_WAIT_BADPID, pid, 0);
    sk_logev(LK_WAITPID, pid, 0, 0, -ECHILD);
    errno = ECHILD; return -1;
  }
  struct sk_proc *c = &K->proc[pi];
  int first = 1;
  while (c->state != PS_ZOMBIE) {
    if (c->state == PS_REAPED && c->autoreaped) { sk_logev(LK_WAITPID, pid, 0, 0, -ECHILD); errno = ECHILD; return -1; }
    if ((options & WUNTRACED) && c->state == PS_RUNNING && c->stopped == 1) {   /* a stopped child, asked for: reported once, nothing is reaped */
      c->stopped = 2;
      if (status) *status = 0x7f | (SIGSTOP << 8);
      sk_logev(LK_WAITPID, pid, options, 0, 0);
      return pid;
    }
    if (options & WNOHANG) { sk_logev(LK_WAITPID, pid, options, 0, 0); return 0; }
    if (first) { K->blocks++; sk_logev(LK_BLOCK, LK_WAITPID, pid, 0, 0); first = 0; }
    block_on("waitpid");
    if (sk_interrupt) { sk_interrupt = 0; errno = EINTR; return -1; }
  }
  c->state = PS_REAPED;
  if (status) *status = c->status;
  sk_logev(LK_WAITPID, pid, options, c->handle, pid);
  return pid;
}

/* waitid: the same kernel object as waitpid, another way of asking (WNOWAIT looks without reaping) */
int __wrap_waitid(idtype_t idtype, id_t id, siginfo_t *info, int options)
{
  pid_t pid = idtype == P_PID ? (pid_t) id : -1;
  if (idtype != P_PID && idtype != P_ALL) { sk_mon(MON_UNSUPPORTED, LK_WAITPID, (int) idtype); errno = EINVAL; return -1; }
  if (!(options & (WEXITED | WSTOPPED | WCONTINUED))) { errno = EINVAL; return -1; }
  int st = 0; pid_t got;
  if ((options & WNOWAIT) && pid > 0) {
    int e = fault(FK_WAITPID);
    if (e) { errno = e; return -1; }
    int pi = sk_proc_by_pid(pid);
    if (pi < 0 || K->proc[pi].state == PS_REAPED) { sk_mon(MON_WAIT_BADPID, pid, 0); sk_logev(LK_WAITPID, pid, 0, 0, -ECHILD); errno = ECHILD; return -1; }
    struct sk_proc *c = &K->proc[pi];
    int first = 1;
    got = pid;
    while (c->state != PS_ZOMBIE) {
      if (options & WNOHANG) { got = 0; break; }
      if (first) { K->blocks++; sk_logev(LK_BLOCK, LK_WAITPID, pid, 0, 0); first = 0; }
      block_on("waitid");
      if (sk_interrupt) { sk_interrupt = 0; errno = EINTR; return -1; }
    }
    st = c->status;
  } else {
    got = __wrap_waitpid(pid, &st, options & WNOHANG);
    if (got < 0) return -1;
  }
  if (info) {
    memset(info, 0, sizeof *info);
    if (got > 0) {
      info->si_signo = SIGCHLD; info->si_pid = got;
      if (WIFEXITED(st)) { info->si_code = CLD_EXITED; info->si_status = WEXITSTATUS(st); }
      else { info->si_code = WCOREDUMP(st) ? CLD_DUMPED : CLD_KILLED; info->si_status = WTERMSIG(st); }
    }
  }
  return 0;
}

int __wrap_kill(pid_t pid, int sig)
{
  int e = fault(FK_KILL);
  if (e) { errno = e; return -1; }
  if (pid < -1 && sk_proc_by_pid(-pid) >= 0) {
    /* a process group: never legitimate for this library (C06) - flagged - but the group's leader does get the signal */
    sk_mon(MON_KILL_BADPID, pid, sig);
    pid = -pid;
  }
  if (pid <= 0) { sk_mon(MON_KILL_BADPID, pid, sig); sk_logev(LK_KILL, pid, sig, 0, -ESRCH); errno = ESRCH; return -1; }
  int pi = sk_proc_by_pid(pid);
  if (pi < 0 || K->proc[pi].state == PS_REAPED) {
    sk_mon(MON_KILL_BADPID, pid, sig);
    sk_logev(LK_KILL, pid, sig, 0, -ESRCH);
    errno = ESRCH; return -1;
  }
  struct sk_proc *c = &K->proc[pi];
  if (c->killfail) { sk_logev(LK_OTHER, pid, sig, c->handle, -EPERM); errno = EPERM; return -1; }   /* refused by the kernel: nothing is sent */
  sk_logev(LK_KILL, pid, sig, c->handle, 0);
  if (c->state == PS_RUNNING && sig != 0) {
    if (c->nsigs < 16) { c->sigs[c->nsigs].sig = sig; c->sigs[c->nsigs].t = K->now; c->nsigs++; }
    if (sig == SIGKILL) sk_child_exit(pi, SIGKILL);
    else if (sig == SIGTERM && c->term == TERM_NOW) sk_child_exit(pi, SIGTERM);
    else if (sig == SIGTERM && c->term == TERM_LATER && sk_on_term_later) sk_on_term_later(c->handle);
  }
  return 0;
}

/* Every simulated child is the leader of a process group and of a session of its own (as after setsid()): a legal
 * environment in which "the child's group" and "the child" are different targets. */
pid_t __wrap_getpgid(pid_t pid)
{
  if (pid == 0) return 900;
  int pi = sk_proc_by_pid(pid);
  if (pi < 0 || K->proc[pi].state == PS_REAPED) { errno = ESRCH; return -1; }
  return pid;
}
pid_t __wrap_getsid(pid_t pid) { return __wrap_getpgid(pid); }
pid_t __wrap_getpgrp(void) { return 900; }
int __wrap_killpg(pid_t pgrp, int sig) { return __wrap_kill(pgrp > 1 ? -pgrp : 0, sig); }
pid_t __wrap_wait(int *status) { return __wrap_waitpid(-1, status, 0); }
pid_t __wrap_wait4(pid_t pid, int *status, int options, void *ru) { (void) ru; return __wrap_waitpid(pid, status, options); }

int __wrap_chdir(const char *path)
{
  int e = fault(FK_CHDIR);
  if (e) { errno = e; return -1; }
  int fl = fs_lookup(path);
  if (!(fl & FS_EXISTS)) { errno = ENOENT; return -1; }
  if (!(fl & FS_DIR)) { errno = ENOTDIR; return -1; }
  ME->cwd = sk_str(path);
  sk_logev(LK_CHDIR, sk_cur, 0, 0, 0);
  return 0;
}

/* stat family: what the simulated file system knows about a name / what kind of object a descriptor refers to */
#include <sys/stat.h>
extern int __real_stat(const char *, struct stat *);
extern int __real_lstat(const char *, struct stat *);
extern int __real_fstat(int, struct stat *);
static void fill_stat(struct stat *st, int fl)
{
  memset(st, 0, sizeof *st);
  st->st_mode = (fl & FS_DIR) ? (S_IFDIR | 0755) : (fl & FS_FIFO) ? (S_IFIFO | 0644) : (S_IFREG | ((fl & FS_EXEC) ? 0755 : 0644));
  st->st_nlink = 1;
}
int __wrap_stat(const char *path, struct stat *st)
{
  if (!K || !K->in_api) return __real_stat(path, st);
  if (!strcmp(path, "/dev/null")) { memset(st, 0, sizeof *st); st->st_mode = S_IFCHR | 0666; return 0; }
  int fl = fs_lookup(path);
  if (!(fl & FS_EXISTS)) { errno = ENOENT; return -1; }
  fill_stat(st, fl);
  return 0;
}
int __wrap_lstat(const char *path, struct stat *st) { if (!K || !K->in_api) return __real_lstat(path, st); return __wrap_stat(path, st); }
int __wrap_fstat(int fd, struct stat *st)
{
  if (!K || !K->in_api) return __real_fstat(fd, st);
  struct sk_proc *p = ME;
  if (fd < 0 || fd >= SK_MAXFD || p->fd[fd].ofd < 0) { errno = EBADF; return -1; }
  struct sk_obj *o = &K->obj[K->ofd[p->fd[fd].ofd].obj];
  memset(st, 0, sizeof *st);
  if (o->kind == OK_PIPE) st->st_mode = S_IFIFO | 0600;
  else if (o->kind == OK_FILE) fill_stat(st, o->fsflags ? o->fsflags : FS_EXISTS);
  else st->st_mode = S_IFCHR | 0620;
  return 0;
}

int __wrap_fchdir(int fd)
{
  int e = fault(FK_CHDIR);
  if (e) { errno = e; return -1; }
  struct sk_proc *p = ME;
  if (fd < 0 || fd >= SK_MAXFD || p->fd[fd].ofd < 0) { errno = EBADF; return -1; }
  struct sk_obj *o = &K->obj[K->ofd[p->fd[fd].ofd].obj];
  if (o->kind != OK_FILE || !(o->fsflags & FS_DIR)) { errno = ENOTDIR; return -1; }
  p->cwd = o->abspath;
  sk_logev(LK_CHDIR, sk_cur, 0, 0, 0);
  return 0;
}

char *__wrap_getcwd(char *buf, size_t size)
{
  int e = fault(FK_GETCWD);
  if (e) { errno = e; return NULL; }
  const char *cwd = K->str + ME->cwd;
  size_t len = K->cwdlen_override > 0 ? (size_t) K->cwdlen_override : strlen(cwd);
  if (buf == NULL) {   /* the glibc extension: a buffer of the needed (or the given) size is allocated for the caller */
    if (size != 0 && size < len + 1) { errno = ERANGE; return NULL; }
    buf = malloc(size ? size : len + 1);
    if (!buf) return NULL;
    size = size ? size : len + 1;
  }
  if (size < len + 1) { errno = ERANGE; return NULL; }
  if (K->cwdlen_override > 0) {
    /* synthesise "/ddd/ddd/..." of exactly len characters */
    for (size_t i = 0; i < len; i++) buf[i] = (i % 200 == 0) ? '/' : (char) ('a' + (i % 23));
    buf[len] = 0;
  } else {
    memcpy(buf, cwd, len + 1);
  }
  return buf;
}

int __wrap_getrlimit(int res, struct rlimit *rl)
{
  int e = fault(FK_GETRLIMIT);
  if (e) { errno = e; return -1; }
  if (res != RLIMIT_NOFILE) return __real_getrlimit(res, rl);
  if (K->rlimit_nofile < 0) { rl->rlim_cur = RLIM_INFINITY; rl->rlim_max = RLIM_INFINITY; }
  else { rl->rlim_cur = (rlim_t) K->rlimit_nofile; rl->rlim_max = (rlim_t) K->rlimit_nofile; }
  return 0;
}
int __wrap_getrlimit64(int res, struct rlimit *rl) { return __wrap_getrlimit(res, rl); }

/* flags and mask of the PARENT's handlers (per real process: the forked child inherits a copy, as it should) */
static struct { int flags; uint64_t mask; int set_flags; uint64_t set_mask; } sk_sa[65];
static uint64_t set_to_bits(const sigset_t *s);
static void bits_to_set(uint64_t b, sigset_t *s);
void sk_set_sigact(int sig, int flags, uint64_t mask) { sk_sa[sig].flags = sk_sa[sig].set_flags = flags; sk_sa[sig].mask = sk_sa[sig].set_mask = mask; }
int sk_sigact_intact(int sig) { return sk_sa[sig].flags == sk_sa[sig].set_flags && sk_sa[sig].mask == sk_sa[sig].set_mask; }
int __wrap_sigaction(int sig, const struct sigaction *act, struct sigaction *old)
{
  int e = fault(FK_SIGACTION);
  if (e) { errno = e; return -1; }
  if (sig < 1 || sig > 64 || sig == 32 || sig == 33) { errno = EINVAL; return -1; }
  if (act && (sig == SIGKILL || sig == SIGSTOP)) { errno = EINVAL; return -1; }
  struct sk_proc *p = ME;
  if (old) {
    memset(old, 0, sizeof *old);
    old->sa_handler = p->disp[sig] == 0 ? SIG_DFL : p->disp[sig] == 1 ? SIG_IGN : (void (*)(int)) 0x1000;
    old->sa_flags = sk_sa[sig].flags;
    bits_to_set(sk_sa[sig].mask, &old->sa_mask);
  }
  if (act) {
    p->disp[sig] = act->sa_handler == SIG_DFL ? 0 : act->sa_handler == SIG_IGN ? 1 : 2;
    sk_sa[sig].flags = act->sa_flags; sk_sa[sig].mask = set_to_bits(&act->sa_mask);
    sk_logev(LK_SIGACT, sig, p->disp[sig], 0, 0);
  }
  return 0;
}
/* signal(): BSD semantics as in glibc - SA_RESTART, empty mask; the old handler alone is returned (flags and mask are lost) */
extern void (*__real_signal(int, void (*)(int)))(int);
static void (*sysv_signal_(int sig, void (*h)(int)))(int);
void (*__wrap___sysv_signal(int sig, void (*h)(int)))(int) { return sysv_signal_(sig, h); }
void (*__wrap_sysv_signal(int sig, void (*h)(int)))(int) { return sysv_signal_(sig, h); }
void (*__wrap_bsd_signal(int sig, void (*h)(int)))(int);
void (*__wrap_signal(int sig, void (*h)(int)))(int)
{
  if (!K || !K->in_api) return __real_signal(sig, h);   /* the harness's own use */
  struct sigaction a, o;
  memset(&a, 0, sizeof a); a.sa_handler = h; a.sa_flags = SA_RESTART; sigemptyset(&a.sa_mask);
  if (__wrap_sigaction(sig, &a, &o) != 0) return SIG_ERR;
  return o.sa_handler;
}

static uint64_t set_to_bits(const sigset_t *s)
{
  uint64_t b = 0;
  for (int i = 1; i <= 64; i++) if (sigismember(s, i) == 1) b |= 1ULL << (i - 1);
  return b;
}
static void bits_to_set(uint64_t b, sigset_t *s)
{
  __real_sigemptyset(s);
  for (int i = 1; i <= 64; i++) if (b & (1ULL << (i - 1))) sigaddset(s, i);
}
static int do_mask(int how, const sigset_t *set, sigset_t *old)
{
  struct sk_proc *p = ME;
  uint64_t prev = p->mask;
  if (set) {
    uint64_t b = set_to_bits(set) & ~((1ULL << (SIGKILL - 1)) | (1ULL << (SIGSTOP - 1)));
    if (how == SIG_BLOCK) p->mask |= b;
    else if (how == SIG_UNBLOCK) p->mask &= ~b;
    else if (how == SIG_SETMASK) p->mask = b;
    else return EINVAL;
    sk_logev(LK_MASK, how, (int) (p->mask & 0x7fffffff), 0, 0);
  }
  if (old) bits_to_set(prev, old);
  return 0;
}
int __wrap_pthread_sigmask(int how, const sigset_t *set, sigset_t *old)
{
  int e = fault(FK_SIGMASK);
  if (e) return e;
  return do_mask(how, set, old);
}
int __wrap_sigprocmask(int how, const sigset_t *set, sigset_t *old)
{
  int e = fault(FK_SIGMASK);
  if (e) { errno = e; return -1; }
  int r = do_mask(how, set, old);
  if (r) { errno = r; return -1; }
  return 0;
}
int __wrap_sigfillset(sigset_t *s)
{
  int e = fault(FK_SIGSET);
  if (e) { errno = e; return -1; }
  return __real_sigfillset(s);
}
int __wrap_sigemptyset(sigset_t *s)
{
  int e = fault(FK_SIGSET);
  if (e) { errno = e; return -1; }
  return __real_sigemptyset(s);
}

#define CLOCK_BASE_S 1700000000LL
int __wrap_clock_gettime(clockid_t c, struct timespec *ts)
{
  (void) c;
  if (!K) return __real_clock_gettime(c, ts);
  ts->tv_sec = (time_t) (CLOCK_BASE_S + K->now / 1000);
  ts->tv_nsec = (long) (K->now % 1000) * 1000000L;
  return 0;
}

/* FILE* registry: fake FILE objects for REDIRECT_FILE; stdin/stdout/stderr map to 0/1/2 as glibc does */
static char fake_files[SK_MAXFD];
/* (the standard descriptors are named by the C library's own stdin / stdout / stderr objects, as a caller would) */
void *sk_file_for_fd(int fd) { return fd == 0 ? (void *) stdin : fd == 1 ? (void *) stdout : fd == 2 ? (void *) stderr : (void *) &fake_files[fd]; }
int __wrap_fileno(FILE *f)
{
  if (f == stdin) return 0;
  if (f == stdout) return 1;
  if (f == stderr) return 2;
  char *c = (char *) f;
  if (c >= fake_files && c < fake_files + SK_MAXFD) return (int) (c - fake_files);
  return __real_fileno(f);
}

/* signal() under -std=c99 is System V signal(): one-shot handler, no SA_RESTART, empty mask */
static void (*sysv_signal_(int sig, void (*h)(int)))(int)
{
  struct sigaction a, o;
  memset(&a, 0, sizeof a); a.sa_handler = h; a.sa_flags = (int) (SA_RESETHAND | SA_NODEFER); sigemptyset(&a.sa_mask);
  if (__wrap_sigaction(sig, &a, &o) != 0) return SIG_ERR;
  return o.sa_handler;
}
void (*__wrap_bsd_signal(int sig, void (*h)(int)))(int) { return __wrap_signal(sig, h); }

/* ---- directory listing of the process's own descriptors (/proc/self/fd, /dev/fd): a common way to find what to close ---- */
struct sk_dir { int magic; int fd; int n, pos; int ents[SK_MAXFD]; struct dirent de; };
static struct sk_dir sk_dirs[4];
extern DIR *__real_opendir(const char *);
extern struct dirent *__real_readdir(DIR *);
extern int __real_closedir(DIR *);
extern int __real_dirfd(DIR *);
static struct sk_dir *as_skdir(DIR *d)
{
  struct sk_dir *x = (struct sk_dir *) d;
  return (x >= sk_dirs && x < sk_dirs + 4 && x->magic == 0x5d1f) ? x : NULL;
}
DIR *__wrap_opendir(const char *path)
{
  if (!K || (strcmp(path, "/proc/self/fd") && strcmp(path, "/dev/fd") && strcmp(path, "/proc/self/fd/") && strcmp(path, "/dev/fd/")))
    return __real_opendir(path);
  int e = fault(FK_OPEN);
  if (e) { errno = e; return NULL; }
  struct sk_proc *p = ME;
  int fd = lowest_free(p, 0);
  if (fd < 0) { errno = EMFILE; return NULL; }
  struct sk_dir *d = NULL;
  for (int i = 0; i < 4; i++) if (sk_dirs[i].magic != 0x5d1f) { d = &sk_dirs[i]; break; }
  if (!d) { errno = ENOMEM; return NULL; }
  int obj = sk_new_obj(OK_FILE, 0);
  K->obj[obj].pathid = sk_str(path);
  sk_install(sk_cur, fd, obj, 0, 1, K->in_api);
  d->magic = 0x5d1f; d->fd = fd; d->n = 0; d->pos = 0;
  for (int i = 0; i < SK_MAXFD; i++) if (p->fd[i].ofd >= 0) d->ents[d->n++] = i;   /* includes the directory's own descriptor, as on Linux */
  sk_logev(LK_OPEN, fd, obj, 0, fd);
  return (DIR *) d;
}
struct dirent *__wrap_readdir(DIR *dp)
{
  struct sk_dir *d = as_skdir(dp);
  if (!d) return __real_readdir(dp);
  if (d->pos >= d->n) return NULL;
  memset(&d->de, 0, sizeof d->de);
  snprintf(d->de.d_name, sizeof d->de.d_name, "%d", d->ents[d->pos++]);
  d->de.d_type = DT_LNK;
  return &d->de;
}
int __wrap_closedir(DIR *dp)
{
  struct sk_dir *d = as_skdir(dp);
  if (!d) return __real_closedir(dp);
  struct sk_proc *p = ME;
  if (p->fd[d->fd].ofd >= 0) fd_close(p, d->fd);
  d->magic = 0;
  return 0;
}
int __wrap_dirfd(DIR *dp)
{
  struct sk_dir *d = as_skdir(dp);
  return d ? d->fd : __real_dirfd(dp);
}

/* ---- allocation ledger ---- */
static struct sk_alloc ledger[SK_MAXALLOC];
static int nledger;
int sk_nalloc(void) { return nledger; }
static void led_add(void *p, size_t n)
{
  if (!p || !K || !K->in_api || sk_cur != 0) return;
  if (nledger < SK_MAXALLOC) { ledger[nledger].p = p; ledger[nledger].n = n; nledger++; }
}
static int led_del(void *p)
{
  for (int i = nledger - 1; i >= 0; i--)
    if (ledger[i].p == p) { ledger[i] = ledger[--nledger]; return 1; }
  return 0;
}
void sk_ledger_reset(void) { nledger = 0; }
int sk_is_alloc(const void *p) { for (int i = 0; i < nledger; i++) if (ledger[i].p == p) return 1; return 0; }
static int afault(void) { return (K && K->in_api) ? fault(FK_ALLOC) : 0; }

void *__wrap_malloc(size_t n)
{
  if (afault()) { errno = ENOMEM; return NULL; }
  void *p = __real_malloc(n);
  led_add(p, n);
  return p;
}
void *__wrap_calloc(size_t a, size_t b)
{
  if (afault()) { errno = ENOMEM; return NULL; }
  void *p = __real_calloc(a, b);
  led_add(p, a * b);
  return p;
}
int sk_fail_next_realloc; /* set by the driver: the next realloc fails (allocation failure at a chosen growth step) */
void *__wrap_realloc(void *q, size_t n)
{
  if (sk_fail_next_realloc) { sk_fail_next_realloc = 0; errno = ENOMEM; return NULL; }
  if (afault()) { errno = ENOMEM; return NULL; }
  int had = q ? led_del(q) : 0;
  void *p = __real_realloc(q, n);
  if (p) { if (had || (K && K->in_api)) led_add(p, n); }
  else if (had) led_add(q, 0);
  return p;
}
void __wrap_free(void *p)
{
  if (p) led_del(p);
  __real_free(p);
}
char *__wrap_strdup(const char *s)
{
  if (afault()) { errno = ENOMEM; return NULL; }
  char *p = __real_strdup(s);
  led_add(p, strlen(s) + 1);
  return p;
}
