/* fidelity self-test: the same micro-scenarios are run on the real kernel (plain build) and on simk (build with
 * -DSIMK and the --wrap seam); the two transcripts must be identical.  It validates the trusted base (simk's
 * agreement with Linux on the semantics the predictions rely on); it is not in any property's verdict path. */
#define _GNU_SOURCE
#include <errno.h>
#include <fcntl.h>
#include <poll.h>
#include <signal.h>
#include <stdio.h>
#include <stdlib.h>
#include <string.h>
#include <sys/wait.h>
#include <unistd.h>
#ifdef SIMK
#include "simk.h"
#endif

static int rev(int fd, short ev) { struct pollfd p = { fd, ev, 0 }; int r = poll(&p, 1, 0); return r < 0 ? -errno : p.revents; }
static void nb(int fd) { fcntl(fd, F_SETFL, fcntl(fd, F_GETFL) | O_NONBLOCK); }
#define P(...) printf(__VA_ARGS__)

int main(void)
{
#ifdef SIMK
  sk_init(4u << 20);
  K->pipecap = 65536; K->rlimit_nofile = 256;
  for (int i = 0; i < 3; i++) { int o = sk_new_obj(OK_TTY, 0); sk_install(0, i, o, 2, 0, 0); }
#endif
  signal(SIGPIPE, SIG_IGN);
  int p[2], q[2]; char buf[70000]; memset(buf, 'x', sizeof buf);
  /* 1-2: empty pipe, then data */
  if (pipe(p)) return 2;
  P("empty: r=%d w=%d\n", rev(p[0], POLLIN), rev(p[1], POLLOUT));
  P("write3=%zd r=%d read0=%zd\n", write(p[1], "abc", 3), rev(p[0], POLLIN), read(p[0], buf, 0));
  P("read=%zd r=%d\n", read(p[0], buf, 10), rev(p[0], POLLIN));
  /* 3: fill */
  nb(p[1]);
  long total = 0; for (;;) { ssize_t w = write(p[1], buf, 4096); if (w < 0) { P("full after %ld errno=%d\n", total, errno); break; } total += w; }
  P("full: w=%d r=%d\n", rev(p[1], POLLOUT), rev(p[0], POLLIN));
  /* 4: reader gone */
  close(p[0]);
  P("full,noreader: w=%d write=%zd errno=%d\n", rev(p[1], POLLOUT), write(p[1], "a", 1), errno);
  close(p[1]);
  if (pipe(p)) return 2;
  close(p[0]);
  P("empty,noreader: w=%d write=%zd errno=%d\n", rev(p[1], POLLOUT), write(p[1], "a", 1), errno);
  close(p[1]);
  /* 5: writer gone with data */
  if (pipe(p)) return 2;
  P("w2=%zd\n", write(p[1], "ab", 2));
  close(p[1]);
  P("data,nowriter: r=%d read=%zd r2=%d read2=%zd read0=%zd\n", rev(p[0], POLLIN), read(p[0], buf, 10), rev(p[0], POLLIN), read(p[0], buf, 10), read(p[0], buf, 0));
  close(p[0]);
  /* 6: nonblocking read on empty pipe with writer */
  if (pipe(p)) return 2;
  nb(p[0]);
  P("nbread=%zd errno=%d\n", read(p[0], buf, 5), errno);
  /* 7: dup semantics */
  fcntl(p[0], F_SETFD, FD_CLOEXEC);
  P("dup2same=%d cloexec=%d\n", dup2(p[0], p[0]) == p[0], fcntl(p[0], F_GETFD));
  int d = dup2(p[0], 40);
  P("dup2=%d cloexec=%d flnb=%d\n", d, fcntl(40, F_GETFD), (fcntl(40, F_GETFL) & O_NONBLOCK) != 0);
  int e = fcntl(p[0], F_DUPFD_CLOEXEC, 50), f = fcntl(p[0], F_DUPFD, 50);
  P("dupfd_cloexec=%d fl=%d dupfd=%d fl=%d\n", e, fcntl(e, F_GETFD), f, fcntl(f, F_GETFD));
  close(40); close(e); close(f);
  P("otherend nb=%d\n", (fcntl(p[1], F_GETFL) & O_NONBLOCK) != 0);
  close(p[0]); close(p[1]);
  /* 8: lowest free descriptor */
  close(0);
  if (pipe(q)) return 2;
  P("after close(0): pipe=%d,%d\n", q[0], q[1] > 2);
  close(q[1]);
  /* 9: /dev/null */
  int n1 = open("/dev/null", O_WRONLY | O_CLOEXEC), n2 = open("/dev/null", O_RDONLY);
  P("null: write=%zd read=%zd cloexec=%d,%d w=%d\n", write(n1, "abc", 3), read(n2, buf, 5), fcntl(n1, F_GETFD), fcntl(n2, F_GETFD), rev(n1, POLLOUT));
  /* 10: bad descriptors */
  close(n1);
  P("close2=%d errno=%d getfd=%d errno=%d pollnval=%d\n", close(n1), errno, fcntl(n1, F_GETFD), errno, rev(n1, POLLIN));
  P("dup2bad=%d errno=%d\n", dup2(n1, 45), errno);
  /* 12: children */
  fflush(stdout);
  pid_t c = fork();
  if (c == 0) _exit(7);
  usleep(0);
  int st = 0; 
  int k0 = kill(c, 0);
  pid_t w = waitpid(c, &st, 0);
  P("child: kill_on_zombie=%d wait_ok=%d exited=%d code=%d\n", k0, w == c, WIFEXITED(st), WEXITSTATUS(st));
  P("again: wait=%d errno=%d kill=%d errno=%d\n", (int) waitpid(c, &st, 0), errno, kill(c, 0), errno);
  /* 12b: the child ends but a descendant of it holds its end of a pipe (ChildExitG / GrandGone in the model):
     no hang-up on the pipe although the child can be reaped; hang-up once the descendant is gone too */
  {
    int x[2], g[2];
    if (pipe(x) || pipe(g)) return 2;
    fflush(stdout);
    pid_t cc = fork();
    if (cc == 0) {
#ifdef SIMK
      extern int sk_cur; extern void __real__exit(int);
      sk_child_exit_keep(sk_cur, 7 << 8); __real__exit(0);
#else
      if (fork() == 0) { close(g[1]); char ch; while (read(g[0], &ch, 1) > 0) {} _exit(0); }
      _exit(7);
#endif
    }
    close(x[1]); close(g[0]);
    int stg = 0, tries = 0; pid_t wg = 0;
    while ((wg = waitpid(cc, &stg, WNOHANG)) == 0 && tries++ < 2000) usleep(1000);
    P("grand: reaped=%d code=%d pipe_rev=%d\n", wg == cc, WEXITSTATUS(stg), rev(x[0], POLLIN));
#ifdef SIMK
    sk_grand_gone(sk_proc_by_pid(cc)); close(g[1]);
#else
    close(g[1]);
    struct pollfd pg = { x[0], POLLIN, 0 }; poll(&pg, 1, 5000);
#endif
    P("gone: pipe_rev=%d read=%zd\n", rev(x[0], POLLIN), read(x[0], buf, 4));
    close(x[0]);
  }
  /* 13: signal mask */
  sigset_t s, o;
  sigemptyset(&s); sigaddset(&s, SIGTERM); sigaddset(&s, SIGKILL);
  sigprocmask(SIG_BLOCK, &s, NULL);
  sigprocmask(SIG_BLOCK, NULL, &o);
  P("mask: term=%d kill=%d int=%d\n", sigismember(&o, SIGTERM), sigismember(&o, SIGKILL), sigismember(&o, SIGINT));
  sigfillset(&s); sigprocmask(SIG_SETMASK, &s, &o); sigprocmask(SIG_SETMASK, &o, &s);
  P("mask2: was_term=%d filled_usr1=%d\n", sigismember(&o, SIGTERM), sigismember(&s, SIGUSR1));
  /* 14: poll timeout */
  struct pollfd pf = { q[0], POLLIN, 0 };
  P("poll_eof: r=%d rev=%d\n", poll(&pf, 1, 0), pf.revents);
  /* 15: a pipe in packet mode: a read takes one packet, what of it does not fit is gone */
  {
    int d[2];
    if (pipe2(d, O_DIRECT) == 0) {
      ssize_t w1 = write(d[1], "abcd", 4), w2 = write(d[1], "ef", 2);
      char b2[8] = { 0 }; ssize_t r1 = read(d[0], b2, 2); ssize_t r2 = read(d[0], b2 + 2, 6);
      P("direct: w=%zd,%zd r1=%zd r2=%zd second=%c\n", w1, w2, r1, r2, r2 > 0 ? b2[2] : '-');
      close(d[0]); close(d[1]);
    }
  }
  /* 16: a hung-up read end asked about nothing still says so */
  { int hh[2]; if (pipe(hh)) return 2; close(hh[1]); P("hup0: rev=%d\n", rev(hh[0], 0)); close(hh[0]); }
  /* 17: a parent that ignores SIGCHLD has no zombies: its wait is told there is no child */
  {
    struct sigaction ig, old; memset(&ig, 0, sizeof ig); ig.sa_handler = SIG_IGN; sigaction(SIGCHLD, &ig, &old);
    fflush(stdout);
    pid_t a = fork(); if (a == 0) _exit(5);
    int sa_ = 0; pid_t wr = waitpid(a, &sa_, 0); int e_ = errno;
    P("autoreap: wait_failed=%d errno=%d\n", wr < 0, wr < 0 ? e_ : 0);
    sigaction(SIGCHLD, &old, NULL);
  }
  /* 18: a stopped child is reported to a waiter that asks for stopped children, once, and is not reaped by that */
  {
    fflush(stdout);
    pid_t a = fork();
    if (a == 0) {
#ifdef SIMK
      extern int sk_cur; extern void __real__exit(int);
      K->proc[sk_cur].state = PS_RUNNING; K->proc[sk_cur].stopped = 1; __real__exit(0);
#else
      raise(SIGSTOP); _exit(3);
#endif
    }
    int s1 = 0, s2 = 0; pid_t w1 = waitpid(a, &s1, WUNTRACED);
    P("stopped: reported=%d stopped=%d sig=%d\n", w1 == a, WIFSTOPPED(s1), WIFSTOPPED(s1) ? WSTOPSIG(s1) : 0);
#ifdef SIMK
    sk_child_exit(sk_proc_by_pid(a), 3 << 8);
#else
    kill(a, SIGCONT);
#endif
    pid_t w2 = waitpid(a, &s2, 0);
    P("continued: reaped=%d exited=%d code=%d\n", w2 == a, WIFEXITED(s2), WEXITSTATUS(s2));
  }
  return 0;
}
