/* simk — a deterministic, libc-level simulated POSIX kernel with a virtual clock.
 * The library under test is linked with -Wl,--wrap=<sym> so that every system
 * call it makes lands in __wrap_<sym> (simk.c), which operates on the state
 * below.  The state lives in a MAP_SHARED mapping so that the REAL fork() done
 * inside the wrapped fork() lets the library's child-side code run against the
 * very same simulated kernel (see DESIGN.md 4.2).
 */
#ifndef SIMK_H
#define SIMK_H
#include <stddef.h>
#include <stdint.h>
#include <sys/types.h>

#define SK_MAXFD 1100
#define SK_MAXOBJ 48
#define SK_MAXOFD 96
#define SK_MAXPROC 12
#define SK_MAXLOG 4096
#define SK_MAXSTR 262144
#define SK_MAXFAULT 8
#define SK_MAXALLOC 4096
#define SK_INF (-1)

enum sk_okind { OK_FREE = 0, OK_PIPE, OK_NULL, OK_FILE, OK_TTY };
enum sk_pstate { PS_FREE = 0, PS_RUNNING, PS_ZOMBIE, PS_REAPED, PS_FORKING };
enum sk_term { TERM_NOW = 0, TERM_LATER = 1, TERM_IGN = 2 };

/* log entry kinds (libc boundary events) */
enum sk_lk {
  LK_PIPE = 1, LK_OPEN, LK_DUP, LK_CLOSE, LK_FORK, LK_KILL, LK_WAITPID, LK_EXEC, LK_EXIT,
  LK_POLL, LK_READ, LK_WRITE, LK_MASK, LK_SIGACT, LK_CHDIR, LK_ALLOC, LK_FREE, LK_MON, LK_BLOCK,
  LK_FCNTL, LK_OTHER
};
/* monitor event codes (ground-truth violations seen at the boundary) */
enum sk_mon {
  MON_CLOSE_BADF = 1,     /* close() of a descriptor that is not open (double close)          */
  MON_CLOSE_FOREIGN = 2,  /* close() of a descriptor the library did not open (parent side)   */
  MON_KILL_BADPID = 3,    /* kill() on pid <= 0 or not a live unreaped child                   */
  MON_WAIT_BADPID = 4,    /* waitpid() on pid <= 0 or not an unreaped child                    */
  MON_FREE_BAD = 5,       /* free() of unknown / already freed pointer                         */
  MON_CHILD_CRASH = 6,    /* the real child running the library's child path died abnormally  */
  MON_USE_BADF = 7,       /* read/write/poll/fcntl on a descriptor that is not open (EBADF)   */
  MON_UNSUPPORTED = 8,    /* a wrapped call the simulation does not implement                  */
  MON_WAIT_ANY = 9,       /* waitpid(-1 / 0 / <-1)                                             */
  MON_REAP_BLOCK = 10     /* waitpid would block on a running child forever (no env left)     */
};

struct sk_obj {
  int kind;
  int cap, len, head;      /* pipe ring buffer */
  int bufoff;              /* offset of ring buffer in K->arena */
  int readers, writers;    /* number of OFDs (not fds) open for reading / writing */
  int pathid;              /* for OK_FILE: offset of path in K->str */
  int abspath, fsflags;    /* for OK_FILE: the name resolved against the working directory at open time, and what the file system said of it */
  long total_w, total_r;
  int direct;              /* a pipe in packet mode (O_DIRECT): every write is a packet, a read takes ONE packet and what of it does not fit is gone */
  unsigned short pk[128]; int pkh, pkn;
};
struct sk_ofd {
  int used, obj, acc /*0 R 1 W 2 RW*/, nonblock, ref;
};
struct sk_fd {
  int ofd;      /* -1 = closed */
  int cloexec;
  int owner;    /* 0 = harness/user, 1 = opened by the library (parent side ledger) */
};
struct sk_sig { int sig; int t; };
struct sk_proc {
  int state, pid, status;  /* status = wait status word */
  int handle;              /* driver handle index this child was started for (0 = none) */
  int term;                /* reaction to SIGTERM */
  int killfail;            /* kill() on this process fails with EPERM (it changed its user id) */
  int autoreaped;          /* reaped by the kernel itself (the parent ignores SIGCHLD) */
  int stopped;             /* 1: stopped and not yet reported to a waiter that asks for stopped children; 2: reported */
  struct sk_fd fd[SK_MAXFD];
  uint64_t mask;           /* blocked signals, bit (s-1) */
  uint8_t disp[65];        /* 0 default, 1 ignore, 2 handler */
  int cwd;                 /* offset in K->str */
  int execd;               /* 1 after a successful exec */
  int prog, argv, env;     /* offsets in K->str: prog string; argv/env = packed lists */
  int nargv, nenv;
  struct sk_sig sigs[16]; int nsigs;
  int exec_fds_nonblock;   /* bit i set: fd i (0..2) refers to an OFD with O_NONBLOCK at exec */
  int forkmode_child;      /* returned 0 from reproc_start (fork mode) */
  int fork_ret;            /* what reproc_start returned in that child */
  int stdin_read;          /* bytes consumed from stdin by env steps */
  int stdin_eof;           /* saw EOF on stdin */
  int stdin_bad;           /* pattern mismatch */
  int fk_nblocked, fk_start2, fk_lost; /* fork-mode child: number of blocked signals when start returned in it; result of a second start there */
};
struct sk_log { int kind, side, a, b, c, r, t; };
struct sk_fault { int side; int index; int err; int kind; /* 0 = any */ };
struct sk_alloc { void *p; size_t n; };

struct sk_kernel {
  int now;
  int cur;                 /* index of the process executing (0 = parent) in THIS real process */
  struct sk_obj obj[SK_MAXOBJ];
  struct sk_ofd ofd[SK_MAXOFD];
  struct sk_proc proc[SK_MAXPROC];
  int nextpid;
  int rlimit_nofile;       /* soft limit; <0 = RLIM_INFINITY */
  int pipecap;
  int fs_exec_ok;          /* crude file system: see sk_fs_* */
  /* file system: list of known paths in str: flags */
  struct { int path; int flags; } fs[32]; int nfs;
  char str[SK_MAXSTR]; int nstr;
  struct sk_log log[SK_MAXLOG]; int nlog; int log_overflow;
  int callno[2];           /* per side (0 parent, 1 child) count of fault points */
  struct sk_fault fault[SK_MAXFAULT]; int nfault;
  int fault_hits;
  int gcount, gfault_index, gfault_kind; /* script-wide fault plan (see fault()) */
  int in_api;              /* driver sets around library calls */
  int cur_handle;          /* driver handle index of the API call in progress (for fork) */
  int blocks;              /* number of times a call had to block since last reset by driver */
  int blocked_ticks;       /* virtual time spent blocked */
  int hang;                /* set when a block could not be resolved */
  int cwdlen_override;     /* >0: getcwd reports a path of this length */
  int fileno_fail;         /* unused */
  int child_reports;       /* number of children that reached exec/_exit */
  unsigned char arena[1];  /* flexible: pipe buffers */
};

extern struct sk_kernel *K;
extern size_t sk_arena_size;

/* set by the driver: called when a library call blocks; must apply >=1 environment
 * step and return 1, or return 0 if no environment step is available. */
extern int (*sk_env_pull)(void);
extern void (*sk_yield_hook)(int kind);
extern void (*sk_on_fork)(int proc);
extern void (*sk_on_term_later)(int handle);
/* called when a block cannot be resolved (no env step left): never returns */
extern void (*sk_on_hang)(const char *what);

void sk_init(size_t arena);     /* map (or re-zero) the shared state */
int  sk_str(const char *s);     /* intern string into K->str, returns offset */
int  sk_strlist(char *const *l, int *n);
int  sk_new_obj(int kind, int cap);
int  sk_install(int proc, int fd, int obj, int acc, int cloexec, int owner); /* open fd on obj */
int  sk_proc_by_pid(int pid);
void sk_child_exit(int p, int status_word); /* env: child ends */
int  sk_child_write(int p, int fd, int n, int stream_tag, long *off); /* env: child writes n pattern bytes */
int  sk_child_read(int p, int fd, int n);   /* env: child reads up to n bytes from its fd */
void sk_child_close(int p, int fd);
void sk_dup_to(int p, int oldfd, int newfd, int cloexec, int owner);
void sk_child_exit_keep(int p, int status_word); /* env: child ends, a descendant keeps its descriptors */
void sk_grand_gone(int p);                       /* env: that descendant ends */
int  sk_nfds(int p);
unsigned char sk_pattern(int tag, long off);
void sk_logev(int kind, int a, int b, int c, int r);
void sk_mon(int code, int a, int b);
void sk_set_sigact(int sig, int flags, uint64_t mask);  /* the caller installs a handler with these flags / mask */
int  sk_sigact_intact(int sig);                        /* ... and they are still what the caller set */
int  sk_nalloc(void);
int  sk_is_alloc(const void *p);  /* is p a live allocation made by the library (allocation ledger)? */
void sk_fs_add(const char *path, int flags); /* flags: 1 exists, 2 executable, 4 directory, 8 unopenable(EACCES) */
/* FILE* registry for fileno() */
void *sk_file_for_fd(int fd);
/* readiness of a descriptor as poll would report it */
int  sk_revents(int p, int fd, int events);

#define FS_EXISTS 1
#define FS_EXEC 2
#define FS_DIR 4
#define FS_NOACCESS 8
#define FS_SUFFIX 16
#define FS_FIFO 32      /* a named pipe (opening it does not wait here: its other side is taken to be there) */

#endif
