/* C20, real threads on the real kernel (built with ThreadSanitizer): N threads each run complete
 * start / poll / write / poll / read or drain / wait / destroy cycles on their own children; one reader and one writer thread
 * share a child; every thread reads its own reproc_strerror text.  Cross-talk (wrong bytes, wrong status,
 * missing end-of-file) is reported on stdout as FAIL lines; data races are reported by TSan (exit code 66).
 *   thrtest <threads> <cycles>
 */
#define _GNU_SOURCE
#include <errno.h>
#include <pthread.h>
#include <sched.h>
#include <signal.h>
#include <stdio.h>
#include <stdlib.h>
#include <string.h>
#include <time.h>
#include <reproc/reproc.h>
#include <reproc/drain.h>

struct acc { char *buf; int n, cap; };
static int acc_sink(REPROC_STREAM stream, const uint8_t *b, size_t n, void *ctx)
{
  struct acc *a = ctx;
  if (stream != REPROC_STREAM_OUT || n == 0) return 0;
  if (a->n + (int) n > a->cap) return -7;
  memcpy(a->buf + a->n, b, n); a->n += (int) n;
  return 0;
}

static int cycles = 20;
static int failures;
static pthread_mutex_t mu = PTHREAD_MUTEX_INITIALIZER;
static void fail(const char *what, int tid, int a, int b)
{
  pthread_mutex_lock(&mu); failures++; printf("FAIL thread=%d %s %d %d\n", tid, what, a, b); pthread_mutex_unlock(&mu);
}

static void *cycle_thread(void *arg)
{
  int tid = (int) (long) arg;
  char script[64]; snprintf(script, sizeof script, "cat; exit %d", 10 + tid);
  const char *argv[] = { "/bin/sh", "-c", script, NULL };
  /* every thread has a signal mask of its own and must still have exactly it after every start */
  sigset_t mine, now_;
  sigemptyset(&mine); sigaddset(&mine, SIGRTMIN + 1 + tid % 20); if (tid % 2) sigaddset(&mine, SIGUSR2);
  pthread_sigmask(SIG_SETMASK, &mine, NULL);
  for (int c = 0; c < cycles; c++) {
    reproc_t *p = reproc_new();
    reproc_options o = { 0 };
    if (tid % 2) o.redirect.err.type = REPROC_REDIRECT_PIPE;      /* threads differ in their (valid) options */
    if (tid % 4 == 3) {
      /* ... and some also make requests that must be rejected, with shorthands another thread's request does not have */
      reproc_options bad = { 0 };
      bad.redirect.file = stdout; bad.redirect.path = "/nonexistent-dir/x";
      int rb = reproc_start(p, argv, bad);
      if (rb != REPROC_EINVAL) { fail("start-accepted-invalid", tid, rb, c); reproc_destroy(p); continue; }
    }
    int r = reproc_start(p, argv, o);
    if (r < 0) { fail(r == REPROC_EINVAL ? "start-rejected-valid" : "start", tid, r, c); reproc_destroy(p); continue; }
    pthread_sigmask(SIG_SETMASK, NULL, &now_);
    for (int sg = 1; sg < 64; sg++) if (sigismember(&mine, sg) != sigismember(&now_, sg)) { fail("mask-after-start", tid, sg, c); pthread_sigmask(SIG_SETMASK, &mine, NULL); break; }
    char msg[256]; int n = snprintf(msg, sizeof msg, "thread-%d-cycle-%d-%s", tid, c, "payload-payload-payload");
    int off = 0;
    /* polling one's own child while other threads poll theirs: each with its own interests and answer */
    reproc_event_source es = { p, (tid % 2) ? REPROC_EVENT_IN : REPROC_EVENT_IN | REPROC_EVENT_EXIT, 0 };
    r = reproc_poll(&es, 1, 10000);
    if (r != 1 || es.events != REPROC_EVENT_IN) fail("poll-in", tid, r, es.events);
    while (off < n) { r = reproc_write(p, (uint8_t *) msg + off, (size_t) (n - off)); if (r < 0) { fail("write", tid, r, c); break; } off += r; }
    reproc_close(p, REPROC_STREAM_IN);   /* the child must see end-of-file: no other child may hold this pipe */
    es.interests = REPROC_EVENT_OUT; es.events = 0;
    r = reproc_poll(&es, 1, 10000);
    if (r != 1 || es.events != REPROC_EVENT_OUT) fail("poll-out", tid, r, es.events);
    char got[512]; int g = 0;
    if (c % 2) {  /* every other cycle through reproc_drain */
      struct acc a = { got, 0, (int) sizeof got };
      reproc_sink sk = { acc_sink, &a };
      r = reproc_drain(p, sk, sk);
      if (r != 0) fail("drain", tid, r, c);
      g = a.n; r = REPROC_EPIPE;
    } else
    for (;;) { r = reproc_read(p, REPROC_STREAM_OUT, (uint8_t *) got + g, sizeof got - (size_t) g); if (r < 0) break; g += r; }
    if (r != REPROC_EPIPE) fail("read-end", tid, r, c);
    if (g != n || memcmp(got, msg, (size_t) n) != 0) fail("echo-differs", tid, g, n);
    r = reproc_wait(p, 10000);
    if (r != 10 + tid) fail("status", tid, r, 10 + tid);
    /* thread-local error strings */
    int code = (tid % 2) ? REPROC_EPIPE : REPROC_ETIMEDOUT;
    const char *s = reproc_strerror(code);
    char exp[256]; const char *e = strerror_r(-code, exp, sizeof exp);
    if (!s || strcmp(s, e) != 0) fail("strerror", tid, code, 0);
    /* ... also for values the system has no message for (an exit status handed to reproc_strerror): whatever the text is, it is
       this thread's own and does not change under it while other threads ask about other values */
    const char *u = reproc_strerror(1000 + tid);
    char keepu[128]; snprintf(keepu, sizeof keepu, "%s", u ? u : "");
    sched_yield();
    const char *u2 = reproc_strerror(-(137 + tid));
    char keepu2[128]; snprintf(keepu2, sizeof keepu2, "%s", u2 ? u2 : "");
    sched_yield();
    if (!u2 || strcmp(u2, keepu2) != 0) fail("strerror-unknown", tid, 137 + tid, 0);
    (void) keepu;
    reproc_destroy(p);
  }
  return NULL;
}

/* reader || writer on one child */
static reproc_t *shared;
static int rw_pause_ms;
#define BIG (1024 * 1024)   /* more than the two pipes and the child can hold: reader and writer must make progress together */
static void *writer(void *arg)
{
  (void) arg;
  uint8_t *b = malloc(BIG);
  for (int i = 0; i < BIG; i++) b[i] = (uint8_t) (i * 7 + (i >> 8));
  int off = 0;
  while (off < BIG) {
    int lim = (rw_pause_ms && off < BIG / 2) ? BIG / 2 : BIG;
    int r = reproc_write(shared, b + off, (size_t) (lim - off)); if (r < 0) { fail("rw-write", 0, r, off); break; } off += r;
    if (rw_pause_ms && off == BIG / 2) { struct timespec ts = { rw_pause_ms / 1000, (rw_pause_ms % 1000) * 1000000L }; nanosleep(&ts, NULL); }
  }
  reproc_close(shared, REPROC_STREAM_IN);
  free(b);
  return NULL;
}
/* second round: the reader uses reproc_drain, the writer pauses in the middle (the child is silent for a while: nobody but
 * the writer may end its input) */
struct big { uint8_t *b; int g; };
static int big_sink(REPROC_STREAM stream, const uint8_t *buf, size_t n, void *ctx)
{
  struct big *a = ctx;
  if (stream != REPROC_STREAM_OUT || n == 0) return 0;
  if (a->g + (int) n > BIG + 16) return -7;
  memcpy(a->b + a->g, buf, n); a->g += (int) n;
  return 0;
}
static void *drain_reader(void *arg)
{
  (void) arg;
  struct big a = { malloc(BIG + 16), 0 };
  reproc_sink sk = { big_sink, &a };
  int r = reproc_drain(shared, sk, sk);
  if (r != 0) fail("rw-drain", 0, r, a.g);
  if (a.g != BIG) fail("rw-drain-length", 0, a.g, BIG);
  for (int i = 0; i < a.g && i < BIG; i++) if (a.b[i] != (uint8_t) (i * 7 + (i >> 8))) { fail("rw-drain-byte", 0, i, a.b[i]); break; }
  free(a.b);
  return NULL;
}
static void *reader(void *arg)
{
  (void) arg;
  uint8_t *b = malloc(BIG + 16); int g = 0, r;
  for (;;) { r = reproc_read(shared, REPROC_STREAM_OUT, b + g, (size_t) (BIG + 16 - g)); if (r < 0) break; g += r; }
  if (r != REPROC_EPIPE) fail("rw-read-end", 0, r, g);
  if (g != BIG) fail("rw-length", 0, g, BIG);
  for (int i = 0; i < g && i < BIG; i++) if (b[i] != (uint8_t) (i * 7 + (i >> 8))) { fail("rw-byte", 0, i, b[i]); break; }
  free(b);
  return NULL;
}

int main(int argc, char **argv)
{
  int nt = argc > 1 ? atoi(argv[1]) : 8;
  cycles = argc > 2 ? atoi(argv[2]) : 20;
  signal(SIGPIPE, SIG_IGN);
  pthread_t th[64];
  for (int t = 0; t < nt; t++) pthread_create(&th[t], NULL, cycle_thread, (void *) (long) t);
  const char *cat[] = { "/bin/cat", NULL };
  shared = reproc_new();
  reproc_options o = { 0 };
  int r = reproc_start(shared, cat, o);
  pthread_t w, rd;
  if (r < 0) fail("rw-start", 0, r, 0);
  else { pthread_create(&w, NULL, writer, NULL); pthread_create(&rd, NULL, reader, NULL); pthread_join(w, NULL); pthread_join(rd, NULL); r = reproc_wait(shared, 10000); if (r != 0) fail("rw-status", 0, r, 0); }
  reproc_destroy(shared);
  /* second round on a fresh child: drain in the reader, a pause in the writer */
  rw_pause_ms = 800;
  shared = reproc_new();
  r = reproc_start(shared, cat, o);
  if (r < 0) fail("rw2-start", 0, r, 0);
  else { pthread_create(&w, NULL, writer, NULL); pthread_create(&rd, NULL, drain_reader, NULL); pthread_join(w, NULL); pthread_join(rd, NULL); r = reproc_wait(shared, 10000); if (r != 0) fail("rw2-status", 0, r, 0); }
  reproc_destroy(shared);
  for (int t = 0; t < nt; t++) pthread_join(th[t], NULL);
  printf("threads=%d cycles=%d failures=%d\n", nt, cycles, failures);
  return failures ? 1 : 0;
}
