#include "json.h"
#include <stdio.h>
#include <stdlib.h>
#include <string.h>

#define ARENA (24u << 20)
static char arena[ARENA];
static size_t used;

static void *aalloc(size_t n)
{
  n = (n + 15) & ~(size_t) 15;
  if (used + n > ARENA) { fprintf(stderr, "json: arena exhausted\n"); exit(2); }
  void *p = arena + used;
  used += n;
  memset(p, 0, n);
  return p;
}
void j_reset(void) { used = 0; }

static const char *P;
static const char *ERR;
static void ws(void) { while (*P == ' ' || *P == '\n' || *P == '\t' || *P == '\r') P++; }

static jv *mk(enum jtype t) { jv *v = aalloc(sizeof *v); v->t = t; return v; }
jv *j_mkint(long x) { jv *v = mk(J_INT); v->i = x; return v; }
jv *j_mkstr(const char *s) { jv *v = mk(J_STR); size_t n = strlen(s) + 1; char *c = aalloc(n); memcpy(c, s, n); v->s = c; return v; }
jv *j_mkarr(void) { return mk(J_ARR); }
jv *j_mkobj(void) { return mk(J_OBJ); }

static void grow(jv *v)
{
  if ((v->n & (v->n - 1)) == 0) { /* power of two (or 0): grow */
    int cap = v->n ? v->n * 2 : 4;
    if (v->n == 0 || v->n >= 4) {
      jv **na = aalloc(sizeof(jv *) * (size_t) cap);
      if (v->n) memcpy(na, v->a, sizeof(jv *) * (size_t) v->n);
      v->a = na;
      if (v->t == J_OBJ) {
        const char **nk = aalloc(sizeof(char *) * (size_t) cap);
        if (v->n) memcpy(nk, v->k, sizeof(char *) * (size_t) v->n);
        v->k = nk;
      }
    }
  }
}
void j_push(jv *arr, jv *x) { grow(arr); arr->a[arr->n++] = x; }
void j_put(jv *o, const char *key, jv *x)
{
  for (int i = 0; i < o->n; i++) if (strcmp(o->k[i], key) == 0) { o->a[i] = x; return; }
  grow(o);
  size_t n = strlen(key) + 1; char *c = aalloc(n); memcpy(c, key, n);
  o->k[o->n] = c; o->a[o->n] = x; o->n++;
}

static jv *value(void);
static const char *string_raw(void)
{
  /* P at opening quote */
  P++;
  const char *s = P;
  size_t len = 0;
  while (*P && *P != '"') { if (*P == '\\' && P[1]) P++; P++; len++; }
  if (*P != '"') { ERR = "unterminated string"; return NULL; }
  char *out = aalloc(len + 1), *o = out;
  for (const char *q = s; q < P; q++) {
    if (*q == '\\') {
      q++;
      switch (*q) {
        case 'n': *o++ = '\n'; break;
        case 't': *o++ = '\t'; break;
        case 'r': *o++ = '\r'; break;
        case 'b': *o++ = '\b'; break;
        case 'f': *o++ = '\f'; break;
        case 'u': { unsigned x = 0; for (int i = 1; i <= 4 && q[i]; i++) { char c = q[i]; x = x * 16 + (unsigned) (c <= '9' ? c - '0' : (c | 32) - 'a' + 10); } *o++ = (char) x; q += 4; break; }
        default: *o++ = *q;
      }
    } else *o++ = *q;
  }
  *o = 0;
  P++;
  return out;
}
static jv *value(void)
{
  ws();
  if (ERR) return NULL;
  if (*P == '{') {
    jv *o = mk(J_OBJ);
    P++; ws();
    if (*P == '}') { P++; return o; }
    for (;;) {
      ws();
      if (*P != '"') { ERR = "expected key"; return NULL; }
      const char *k = string_raw();
      if (!k) return NULL;
      ws();
      if (*P != ':') { ERR = "expected :"; return NULL; }
      P++;
      jv *x = value();
      if (!x) return NULL;
      grow(o); o->k[o->n] = k; o->a[o->n] = x; o->n++;
      ws();
      if (*P == ',') { P++; continue; }
      if (*P == '}') { P++; return o; }
      ERR = "expected , or }"; return NULL;
    }
  }
  if (*P == '[') {
    jv *a = mk(J_ARR);
    P++; ws();
    if (*P == ']') { P++; return a; }
    for (;;) {
      jv *x = value();
      if (!x) return NULL;
      j_push(a, x);
      ws();
      if (*P == ',') { P++; continue; }
      if (*P == ']') { P++; return a; }
      ERR = "expected , or ]"; return NULL;
    }
  }
  if (*P == '"') { const char *s = string_raw(); if (!s) return NULL; jv *v = mk(J_STR); v->s = s; return v; }
  if (!strncmp(P, "true", 4)) { P += 4; jv *v = mk(J_BOOL); v->i = 1; return v; }
  if (!strncmp(P, "false", 5)) { P += 5; jv *v = mk(J_BOOL); v->i = 0; return v; }
  if (!strncmp(P, "null", 4)) { P += 4; return mk(J_NULL); }
  if (*P == '-' || (*P >= '0' && *P <= '9')) {
    char *end; long x = strtol(P, &end, 10);
    if (*end == '.' || *end == 'e' || *end == 'E') { ERR = "non-integer number"; return NULL; }
    P = end; return j_mkint(x);
  }
  ERR = "unexpected character";
  return NULL;
}

jv *j_parse(const char *text, const char **err)
{
  P = text; ERR = NULL;
  jv *v = value();
  if (err) *err = ERR;
  return ERR ? NULL : v;
}

jv *j_get(const jv *o, const char *key)
{
  if (!o || o->t != J_OBJ) return NULL;
  for (int i = 0; i < o->n; i++) if (strcmp(o->k[i], key) == 0) return o->a[i];
  return NULL;
}
long j_int(const jv *o, const char *key, long d)
{
  jv *v = j_get(o, key);
  if (!v) return d;
  if (v->t == J_INT || v->t == J_BOOL) return v->i;
  return d;
}
const char *j_str(const jv *o, const char *key, const char *d)
{
  jv *v = j_get(o, key);
  return (v && v->t == J_STR) ? v->s : d;
}

int j_eq(const jv *a, const jv *b)
{
  if (!a || !b) return a == b;
  if ((a->t == J_INT || a->t == J_BOOL) && (b->t == J_INT || b->t == J_BOOL)) return a->i == b->i;
  if (a->t != b->t) return 0;
  switch (a->t) {
    case J_NULL: return 1;
    case J_STR: return strcmp(a->s, b->s) == 0;
    case J_ARR:
      if (a->n != b->n) return 0;
      for (int i = 0; i < a->n; i++) if (!j_eq(a->a[i], b->a[i])) return 0;
      return 1;
    case J_OBJ:
      if (a->n != b->n) return 0;
      for (int i = 0; i < a->n; i++) { jv *x = j_get(b, a->k[i]); if (!x || !j_eq(a->a[i], x)) return 0; }
      return 1;
    default: return 0;
  }
}

static size_t put(char *buf, size_t cap, size_t at, const char *s, size_t n)
{
  if (at + n < cap) memcpy(buf + at, s, n);
  return at + n;
}
static size_t pr(const jv *v, char *buf, size_t cap, size_t at)
{
  char tmp[32];
  if (!v) return put(buf, cap, at, "null", 4);
  switch (v->t) {
    case J_NULL: return put(buf, cap, at, "null", 4);
    case J_BOOL: return v->i ? put(buf, cap, at, "true", 4) : put(buf, cap, at, "false", 5);
    case J_INT: { int n = snprintf(tmp, sizeof tmp, "%ld", v->i); return put(buf, cap, at, tmp, (size_t) n); }
    case J_STR:
      at = put(buf, cap, at, "\"", 1);
      for (const unsigned char *c = (const unsigned char *) v->s; *c; c++) {
        if (*c == '"' || *c == '\\') { tmp[0] = '\\'; tmp[1] = (char) *c; at = put(buf, cap, at, tmp, 2); }
        else if (*c < 0x20 || *c >= 0x7f) { int n = snprintf(tmp, sizeof tmp, "\\u%04x", *c); at = put(buf, cap, at, tmp, (size_t) n); }
        else { tmp[0] = (char) *c; at = put(buf, cap, at, tmp, 1); }
      }
      return put(buf, cap, at, "\"", 1);
    case J_ARR:
      at = put(buf, cap, at, "[", 1);
      for (int i = 0; i < v->n; i++) { if (i) at = put(buf, cap, at, ",", 1); at = pr(v->a[i], buf, cap, at); }
      return put(buf, cap, at, "]", 1);
    case J_OBJ:
      at = put(buf, cap, at, "{", 1);
      for (int i = 0; i < v->n; i++) {
        if (i) at = put(buf, cap, at, ",", 1);
        at = put(buf, cap, at, "\"", 1); at = put(buf, cap, at, v->k[i], strlen(v->k[i])); at = put(buf, cap, at, "\":", 2);
        at = pr(v->a[i], buf, cap, at);
      }
      return put(buf, cap, at, "}", 1);
  }
  return at;
}
size_t j_print(const jv *v, char *buf, size_t cap)
{
  size_t n = pr(v, buf, cap, 0);
  if (cap) buf[n < cap ? n : cap - 1] = 0;
  return n < cap ? n : cap - 1;
}

static int hexv(int ch) { return ch >= '0' && ch <= '9' ? ch - '0' : ch >= 'A' && ch <= 'F' ? ch - 'A' + 10 : ch >= 'a' && ch <= 'f' ? ch - 'a' + 10 : -1; }
/* "%*N*c" stands for N copies of the character c (very long strings, written short) */
static const char *pct_run(const char *r, long *n)
{
  if (r[0] != '%' || r[1] != '*') return NULL;
  char *end; long v = strtol(r + 2, &end, 10);
  if (end == r + 2 || *end != '*' || !end[1] || v < 0) return NULL;
  *n = v; return end + 1;
}
char *j_pct_decode(char *s)
{
  if (!s) return s;
  size_t need = strlen(s) + 1; int runs = 0;
  for (const char *r = s; *r; r++) { long n; if (pct_run(r, &n)) { need += (size_t) n; runs = 1; } }
  char *out = runs ? malloc(need) : s;   /* (a string with a run token grows: it gets a buffer of its own) */
  char *w = out;
  for (const char *r = s; *r; ) {
    long n; const char *c;
    if ((c = pct_run(r, &n)) != NULL) { memset(w, *c, (size_t) n); w += n; r = c + 1; }
    else if (r[0] == '%' && hexv((unsigned char) r[1]) >= 0 && hexv((unsigned char) r[2]) >= 0 && (hexv((unsigned char) r[1]) * 16 + hexv((unsigned char) r[2])) != 0) {
      *w++ = (char) (hexv((unsigned char) r[1]) * 16 + hexv((unsigned char) r[2])); r += 3;
    } else *w++ = *r++;
  }
  *w = 0;
  return out;
}
char *j_pct_encode(const char *s)
{
  size_t n = strlen(s);
  char *o = malloc(3 * n + 1), *w = o;
  for (const unsigned char *r = (const unsigned char *) s; *r; r++) {
    size_t run = 1; while (r[run] == *r) run++;
    if (run >= 256 && *r >= 0x20 && *r < 0x7f && *r != '%') { w += sprintf(w, "%%*%zu*%c", run, *r); r += run - 1; }
    else if (*r < 0x20 || *r >= 0x7f || *r == '%') { static const char hx[] = "0123456789ABCDEF"; *w++ = '%'; *w++ = hx[*r >> 4]; *w++ = hx[*r & 15]; }
    else *w++ = (char) *r;
  }
  *w = 0;
  return o;
}
