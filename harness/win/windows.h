/* Stub <windows.h> for compiling reproc's process.windows.c / utf.windows.c UNCHANGED on Linux (C18).
 * Only what those two files use. The functions are implemented in windrv.c and record what they are given. */
#ifndef VERIF_STUB_WINDOWS_H
#define VERIF_STUB_WINDOWS_H
#include <stddef.h>
#include <stdint.h>
#include <string.h>
#include <wchar.h>
#include <limits.h>

typedef void *HANDLE;
typedef unsigned int DWORD;
typedef int BOOL;
typedef size_t SIZE_T;
typedef unsigned int UINT;
typedef unsigned short WORD;
typedef void *LPVOID;
typedef wchar_t *LPWSTR;
typedef const wchar_t *LPCWSTR;
typedef char *LPSTR;
typedef const char *LPCCH;
typedef unsigned char *LPBYTE;
typedef void *LPPROC_THREAD_ATTRIBUTE_LIST;
typedef void *PVOID;

#define INVALID_HANDLE_VALUE ((HANDLE) (intptr_t) -1)
#define CREATE_NEW_PROCESS_GROUP 0x00000200
#define CREATE_UNICODE_ENVIRONMENT 0x00000400
#define EXTENDED_STARTUPINFO_PRESENT 0x00080000
#define HANDLE_FLAG_INHERIT 0x00000001
#define ERROR_NOT_ENOUGH_MEMORY 8
#define ERROR_INSUFFICIENT_BUFFER 122
#define ERROR_CALL_NOT_IMPLEMENTED 120
#define ERROR_INVALID_PARAMETER 87
#define ERROR_BROKEN_PIPE 109
#define ERROR_NO_UNICODE_TRANSLATION 1113
#define WAIT_TIMEOUT 258
#define PROC_THREAD_ATTRIBUTE_HANDLE_LIST 0x00020002
#define STARTF_USESTDHANDLES 0x00000100
#define STARTF_USESHOWWINDOW 0x00000001
#define SW_HIDE 0
#define SEM_NOGPFAULTERRORBOX 0x0002
#define INFINITE 0xFFFFFFFF
#define WAIT_FAILED 0xFFFFFFFF
#define CTRL_BREAK_EVENT 1
#define CP_UTF8 65001
#define MB_ERR_INVALID_CHARS 0x00000008

typedef struct { HANDLE hProcess; HANDLE hThread; DWORD dwProcessId; DWORD dwThreadId; } PROCESS_INFORMATION, *LPPROCESS_INFORMATION;
typedef struct {
  DWORD cb; LPWSTR lpReserved; LPWSTR lpDesktop; LPWSTR lpTitle; DWORD dwX, dwY, dwXSize, dwYSize, dwXCountChars, dwYCountChars,
  dwFillAttribute, dwFlags; WORD wShowWindow, cbReserved2; LPBYTE lpReserved2; HANDLE hStdInput, hStdOutput, hStdError;
} STARTUPINFOW, *LPSTARTUPINFOW;
typedef struct { STARTUPINFOW StartupInfo; LPPROC_THREAD_ATTRIBUTE_LIST lpAttributeList; } STARTUPINFOEXW;
typedef struct { DWORD nLength; LPVOID lpSecurityDescriptor; BOOL bInheritHandle; } SECURITY_ATTRIBUTES, *LPSECURITY_ATTRIBUTES;

void SetLastError(DWORD e);
DWORD GetLastError(void);
BOOL SetHandleInformation(HANDLE h, DWORD mask, DWORD flags);
BOOL InitializeProcThreadAttributeList(LPPROC_THREAD_ATTRIBUTE_LIST l, DWORD n, DWORD f, SIZE_T *size);
BOOL UpdateProcThreadAttribute(LPPROC_THREAD_ATTRIBUTE_LIST l, DWORD f, size_t attr, PVOID v, SIZE_T sz, PVOID p, SIZE_T *r);
void DeleteProcThreadAttributeList(LPPROC_THREAD_ATTRIBUTE_LIST l);
wchar_t *GetEnvironmentStringsW(void);
BOOL FreeEnvironmentStringsW(wchar_t *p);
BOOL CreateProcessW(LPCWSTR app, LPWSTR cmd, LPSECURITY_ATTRIBUTES pa, LPSECURITY_ATTRIBUTES ta, BOOL inherit, DWORD flags, LPVOID env,
                    LPCWSTR cwd, LPSTARTUPINFOW si, LPPROCESS_INFORMATION pi);
UINT SetErrorMode(UINT m);
DWORD GetProcessId(HANDLE h);
DWORD WaitForSingleObject(HANDLE h, DWORD ms);
BOOL GetExitCodeProcess(HANDLE h, DWORD *code);
BOOL GenerateConsoleCtrlEvent(DWORD ev, DWORD group);
BOOL TerminateProcess(HANDLE h, UINT code);
int MultiByteToWideChar(UINT cp, DWORD flags, LPCCH s, int n, LPWSTR out, int outn);
#endif
