/* C18 driver: calls the real process_start of process.windows.c (compiled against the stub windows.h),
 * records the command line / environment block the stub CreateProcessW receives and the size of the buffer
 * allocated for the command line, for every argument vector of the requested enumeration.
 *   windrv single L | pair L | triple L | env | random N SEED MAXLEN   -> ndjson records on stdout
 */
#define _GNU_SOURCE
#include <stdio.h>
#include <stdlib.h>
#include <string.h>
#include <pthread.h>
#include <windows.h>
#include "process.h"
#define TL __thread   /* everything the stubs record is per thread: the "threads" mode runs several starts at once */

const HANDLE HANDLE_INVALID = INVALID_HANDLE_VALUE;
HANDLE handle_destroy(HANDLE h) { (void) h; return HANDLE_INVALID; }
const int REPROC_SIGTERM = 143, REPROC_SIGKILL = 137;

static TL DWORD last_error;
void SetLastError(DWORD e) { last_error = e; }
DWORD GetLastError(void) { return last_error; }
BOOL SetHandleInformation(HANDLE h, DWORD m, DWORD f) { (void) h; (void) m; (void) f; return 1; }
BOOL InitializeProcThreadAttributeList(LPPROC_THREAD_ATTRIBUTE_LIST l, DWORD n, DWORD f, SIZE_T *size)
{ (void) n; (void) f; if (!l) { *size = 64; SetLastError(ERROR_INSUFFICIENT_BUFFER); return 0; } return 1; }
BOOL UpdateProcThreadAttribute(LPPROC_THREAD_ATTRIBUTE_LIST l, DWORD f, size_t a, PVOID v, SIZE_T s, PVOID p, SIZE_T *r)
{ (void) l; (void) f; (void) a; (void) v; (void) s; (void) p; (void) r; return 1; }
void DeleteProcThreadAttributeList(LPPROC_THREAD_ATTRIBUTE_LIST l) { (void) l; }
UINT SetErrorMode(UINT m) { (void) m; return 0; }
DWORD GetProcessId(HANDLE h) { (void) h; return 4242; }
DWORD WaitForSingleObject(HANDLE h, DWORD ms) { (void) h; (void) ms; return 0; }
BOOL GetExitCodeProcess(HANDLE h, DWORD *c) { (void) h; *c = 0; return 1; }
BOOL GenerateConsoleCtrlEvent(DWORD e, DWORD g) { (void) e; (void) g; return 1; }
BOOL TerminateProcess(HANDLE h, UINT c) { (void) h; (void) c; return 1; }

/* parent environment block served by GetEnvironmentStringsW. In "envrace" mode the process environment is being enlarged by
 * somebody else (SetEnvironmentVariableW on another thread) while the start runs: the k-th snapshot taken within one start
 * has k more entries than the first. Whatever snapshot a start uses, it has to use ONE: the record names, as penv, the
 * latest snapshot the produced block starts with (the first one when none fits). */
static TL wchar_t parent_block[4096]; static TL int parent_len;
static TL int env_grow, snap_calls; static TL int snap_len[8];
static const char GROWN[] = "ZZGROWN=0123456789abcdefghijklmnopqrstuvwxyz0123456789abcdefghijklmnopqrstuvwxyz";
extern void *__real_malloc(size_t);
wchar_t *GetEnvironmentStringsW(void)
{
  int extra = env_grow ? snap_calls : 0, el = (int) sizeof GROWN;   /* el counts the entry's NUL */
  int len = parent_len + extra * el;
  wchar_t *c = __real_malloc(sizeof(wchar_t) * (size_t) (len + 2));
  memcpy(c, parent_block, sizeof(wchar_t) * (size_t) parent_len);
  for (int k = 0; k < extra; k++) for (int i = 0; i < el; i++) c[parent_len + k * el + i] = (wchar_t) (i == 7 && k < 10 ? '0' + k : GROWN[i]);
  c[len] = 0; c[len + 1] = 0;
  if (snap_calls < 8) snap_len[snap_calls] = len;
  snap_calls++;
  return c;
}
BOOL FreeEnvironmentStringsW(wchar_t *p) { free(p); return 1; }

/* UTF-8 -> UTF-16 for one- and two-byte sequences (all the enumerations use); anything else is invalid input: refused when
 * validation is asked for (as utf.windows.c does), replaced by U+FFFD otherwise */
static int utf8_decode(const char *s, int len, wchar_t *out, int *bad)
{
  int n = 0; *bad = 0;
  for (int i = 0; i < len; ) {
    unsigned char c = (unsigned char) s[i];
    if (c < 0x80) { if (out) out[n] = (wchar_t) c; n++; i++; }
    else if (c >= 0xC2 && c <= 0xDF && i + 1 < len && ((unsigned char) s[i + 1] & 0xC0) == 0x80) { if (out) out[n] = (wchar_t) (((c & 0x1F) << 6) | ((unsigned char) s[i + 1] & 0x3F)); n++; i += 2; }
    else { *bad = 1; if (out) out[n] = 0xFFFD; n++; i++; }
  }
  return n;
}
int MultiByteToWideChar(UINT cp, DWORD flags, LPCCH s, int n, LPWSTR out, int outn)
{
  (void) cp;
  int len = n < 0 ? (int) strlen(s) + 1 : n, bad;
  int need = utf8_decode(s, len, NULL, &bad);
  if (bad && (flags & MB_ERR_INVALID_CHARS)) { SetLastError(1113 /* ERROR_NO_UNICODE_TRANSLATION */); return 0; }
  if (!out || outn == 0) return need;
  if (outn < need) { SetLastError(ERROR_INSUFFICIENT_BUFFER); return 0; }
  return utf8_decode(s, len, out, &bad);
}

/* what CreateProcessW saw */
static TL int seen_cmd[1 << 16], seen_cmd_n;
static TL int seen_env[1 << 16], seen_env_n;
static TL int created;
BOOL CreateProcessW(LPCWSTR app, LPWSTR cmd, LPSECURITY_ATTRIBUTES pa, LPSECURITY_ATTRIBUTES ta, BOOL inh, DWORD fl, LPVOID env, LPCWSTR cwd,
                    LPSTARTUPINFOW si, LPPROCESS_INFORMATION pi)
{
  (void) app; (void) pa; (void) ta; (void) inh; (void) fl; (void) cwd; (void) si;
  seen_cmd_n = 0;
  for (const wchar_t *c = cmd; *c; c++) seen_cmd[seen_cmd_n++] = (int) *c;
  seen_env_n = 0;
  const wchar_t *e = env;
  /* an environment block ends with an empty string: read up to and including the terminating NUL NUL (or a lone NUL) */
  for (;;) {
    if (*e == 0) { seen_env[seen_env_n++] = 0; break; }
    while (*e) seen_env[seen_env_n++] = (int) *e++;
    seen_env[seen_env_n++] = 0; e++;
  }
  created++;
  pi->hProcess = (HANDLE) (intptr_t) 77; pi->hThread = (HANDLE) (intptr_t) 78;
  return 1;
}

/* --wrap=calloc: sizes of the buffers process_start allocates */
extern void *__real_calloc(size_t, size_t);
static TL size_t alloc_log[16][2]; static TL int nalloc;
static TL int fail_alloc_at, alloc_seq;   /* "fault" mode: the k-th allocation of a start fails */
void *__wrap_calloc(size_t n, size_t sz)
{
  if (fail_alloc_at && ++alloc_seq == fail_alloc_at) { SetLastError(8 /* ERROR_NOT_ENOUGH_MEMORY */); return NULL; }
  if (nalloc < 16) { alloc_log[nalloc][0] = n; alloc_log[nalloc][1] = sz; nalloc++; }
  return __real_calloc(n, sz);
}
void *__wrap_malloc(size_t n) { if (fail_alloc_at && ++alloc_seq == fail_alloc_at) return NULL; return __real_malloc(n); }
extern void *__real_realloc(void *, size_t);
void *__wrap_realloc(void *p, size_t n) { if (fail_alloc_at && ++alloc_seq == fail_alloc_at) return NULL; return __real_realloc(p, n); }
static TL int cur_fault;

static const char ALPHA[] = { 'a', ' ', '\t', '\n', '\v', '"', '\\' };
#define NA 7
static long recid;

static void print_codes(const char *s)
{
  printf("[");
  for (size_t i = 0; s[i]; i++) printf("%s%d", i ? "," : "", (unsigned char) s[i]);
  printf("]");
}

static void run_case(const char *const *argv, int envb, const char *const *envx, const char *const *penv)
{
  parent_len = 0;
  for (int i = 0; penv && penv[i]; i++) { for (const char *c = penv[i]; *c; c++) parent_block[parent_len++] = (wchar_t) (unsigned char) *c; parent_block[parent_len++] = 0; }
  parent_block[parent_len] = 0; parent_block[parent_len + 1] = 0;
  nalloc = 0; created = 0; seen_cmd_n = 0; seen_env_n = 0; snap_calls = 0;
  HANDLE h = NULL;
  struct process_options o;
  memset(&o, 0, sizeof o);
  o.env.behavior = envb; o.env.extra = envx;
  o.handle.in = (HANDLE) (intptr_t) 10; o.handle.out = (HANDLE) (intptr_t) 11; o.handle.err = (HANDLE) (intptr_t) 12; o.handle.exit = (HANDLE) (intptr_t) 13;
  alloc_seq = 0; fail_alloc_at = cur_fault > 0 && cur_fault < 100 ? cur_fault : 0;
  int r = process_start(&h, argv, o);
  fail_alloc_at = 0;
  printf("{\"id\":%ld,\"fault\":%d,\"r\":%d,\"created\":%d,\"argv\":[", ++recid, cur_fault, r, created);
  for (int i = 0; argv[i]; i++) { if (i) printf(","); print_codes(argv[i]); }
  printf("],\"cmd\":[");
  for (int i = 0; i < seen_cmd_n; i++) printf("%s%d", i ? "," : "", seen_cmd[i]);
  printf("],\"alloc\":%zu,\"envb\":%d,\"envnull\":%d,\"envx\":[", nalloc ? alloc_log[0][0] * alloc_log[0][1] : 0, envb, envx == NULL);
  for (int i = 0; envx && envx[i]; i++) { if (i) printf(","); print_codes(envx[i]); }
  printf("],\"penv\":[");
  int np = 0;
  for (int i = 0; penv && penv[i]; i++) { if (i) printf(","); print_codes(penv[i]); np++; }
  if (env_grow && snap_calls > 1) {
    /* the latest snapshot of this start that the block starts with: its added entries belong to "the parent's entries" */
    int use = 0, el = (int) sizeof GROWN;
    for (int k = 1; k < snap_calls && k < 8; k++) {
      int ok = seen_env_n >= snap_len[k];
      for (int q = 0; ok && q < k; q++) for (int i = 0; ok && i < el; i++)
        if (seen_env[parent_len + q * el + i] != (int) (i == 7 && q < 10 ? '0' + q : GROWN[i])) ok = 0;
      if (ok) use = k;
    }
    for (int q = 0; q < use; q++) { char e[sizeof GROWN]; memcpy(e, GROWN, sizeof GROWN); if (q < 10) e[7] = (char) ('0' + q); if (np++) printf(","); print_codes(e); }
  }
  printf("],\"snaps\":%d,\"block\":[", snap_calls);
  for (int i = 0; i < seen_env_n; i++) printf("%s%d", i ? "," : "", seen_env[i]);
  printf("]}\n");
}

/* "threads" mode: several threads build command lines for DIFFERENT argument vectors at the same time (vectors that differ,
 * index by index, in whether the argument needs quoting); every result must be the one the same vector gives alone */
static const char *TV[4][5] = {
  { "prog", "two words", "a\tb", "plain", NULL }, { "prog", "alpha", "beta", "with space", NULL },
  { "prog", "q\"uote", "x", "tail\\", NULL }, { "prog", "", "sp ace", "z", NULL } };
static int ref_cmd[4][512], ref_n[4];
static int thr_bad;
static int one_cmd(const char *const *argv)
{
  HANDLE h = NULL; struct process_options o; memset(&o, 0, sizeof o);
  static const char *noenv_[] = { NULL };
  o.env.behavior = 1; o.env.extra = noenv_;
  o.handle.in = (HANDLE) (intptr_t) 10; o.handle.out = (HANDLE) (intptr_t) 11; o.handle.err = (HANDLE) (intptr_t) 12; o.handle.exit = (HANDLE) (intptr_t) 13;
  parent_len = 0; parent_block[0] = 0; parent_block[1] = 0;
  seen_cmd_n = 0;
  return process_start(&h, argv, o);
}
static void *thr_body(void *arg)
{
  int t = (int) (intptr_t) arg;
  for (int i = 0; i < 20000; i++) {
    int r = one_cmd(TV[t]);
    if (r < 0 || seen_cmd_n != ref_n[t] || memcmp(seen_cmd, ref_cmd[t], sizeof(int) * (size_t) seen_cmd_n) != 0) __atomic_add_fetch(&thr_bad, 1, __ATOMIC_RELAXED);
  }
  return NULL;
}

/* enumerate all strings over ALPHA of length <= L into buf list */
static char **strs; static int nstrs;
static void gen(int L)
{
  int total = 0, p = 1;
  for (int l = 0; l <= L; l++) { total += p; p *= NA; }
  strs = malloc(sizeof(char *) * (size_t) total); nstrs = 0;
  for (int l = 0; l <= L; l++) {
    int cnt = 1; for (int i = 0; i < l; i++) cnt *= NA;
    for (int k = 0; k < cnt; k++) {
      char *s = malloc((size_t) l + 1); int x = k;
      for (int i = 0; i < l; i++) { s[i] = ALPHA[x % NA]; x /= NA; }
      s[l] = 0; strs[nstrs++] = s;
    }
  }
}

int main(int argc, char **argv)
{
  const char *mode = argc > 1 ? argv[1] : "single";
  int L = argc > 2 ? atoi(argv[2]) : 3;
  static char obuf[1 << 20];
  setvbuf(stdout, obuf, _IOFBF, sizeof obuf);
  const char *noenv[] = { NULL };
  if (!strcmp(mode, "threads")) {
    for (int t = 0; t < 4; t++) { one_cmd(TV[t]); ref_n[t] = seen_cmd_n; memcpy(ref_cmd[t], seen_cmd, sizeof(int) * (size_t) seen_cmd_n); }
    pthread_t th[4];
    for (int t = 0; t < 4; t++) pthread_create(&th[t], NULL, thr_body, (void *) (intptr_t) t);
    for (int t = 0; t < 4; t++) pthread_join(th[t], NULL);
    printf("{\"threads\":4,\"starts\":80000,\"bad\":%d}\n", thr_bad);
    return thr_bad ? 1 : 0;
  } else if (!strcmp(mode, "single")) {
    gen(L);
    for (int i = 0; i < nstrs; i++) {
      const char *a1[] = { "prog", "x", strs[i], "tail\\", NULL }; run_case(a1, 1, NULL, noenv);   /* between two neighbours */
      const char *a2[] = { "prog", strs[i], NULL }; run_case(a2, 1, NULL, noenv);                   /* last */
      const char *a3[] = { "prog", strs[i], "z", NULL }; run_case(a3, 1, NULL, noenv);              /* first */
    }
  } else if (!strcmp(mode, "pair")) {
    gen(L);
    for (int i = 0; i < nstrs; i++) for (int j = 0; j < nstrs; j++) { const char *a[] = { "prog", strs[i], strs[j], NULL }; run_case(a, 1, NULL, noenv); }
  } else if (!strcmp(mode, "triple")) {
    gen(L);
    for (int i = 0; i < nstrs; i++) for (int j = 0; j < nstrs; j++) for (int k = 0; k < nstrs; k++) { const char *a[] = { "prog", strs[i], strs[j], strs[k], NULL }; run_case(a, 1, NULL, noenv); }
  } else if (!strcmp(mode, "len")) {
    /* command lines of every total length up to L (buffer-size boundaries): a plain and a quoted last argument, and a
       vector that reaches the length after its second argument */
    for (int n = 1; n <= L; n++) {
      char *s = malloc((size_t) n + 2); memset(s, 'a', (size_t) n); s[n] = 0;
      const char *a1[] = { "p", s, NULL }; run_case(a1, 1, NULL, noenv);
      if (n >= 3) { s[n / 2] = ' '; const char *a2[] = { "p", s, NULL }; run_case(a2, 1, NULL, noenv); s[n / 2] = 'a'; }
      if (n % 7 == 0) { const char *a3[] = { "p", s, "b c", "d\\", "e", NULL }; run_case(a3, 1, NULL, noenv); }
      free(s);
    }
  } else if (!strcmp(mode, "fault")) {
    /* a failing allocation at every point of a start, and input that cannot be converted: no process may be created then,
       and a start that does succeed must still pass exactly what was asked for */
    static const char *ex1[] = { "A=1", "BB=two words", NULL }, *pe1[] = { "P=1", "=C:=C:\\x", NULL };
    static const char *a1[] = { "prog", "two words", "q\"x", "tail\\", NULL };
    for (int envb = 0; envb <= 1; envb++) for (int k = 1; k <= 9; k++) {
      cur_fault = k; run_case(a1, envb, ex1, pe1); run_case(a1, envb, NULL, pe1);
    }
    static const char *exbad[] = { "NAME=caf\xE9", NULL }, *abad[] = { "prog", "caf\xE9", NULL }, *aok[] = { "prog", NULL };
    cur_fault = 100; run_case(aok, 0, exbad, pe1); run_case(aok, 1, exbad, pe1); run_case(abad, 0, ex1, pe1);
    cur_fault = 0;
  } else if (!strcmp(mode, "env")) {
    static const char *E[] = { "a=a", "caf\xC3\xA9=\xC3\xBC", "a=", "=a", "a", " =a a", "\xC2\xA3=a= " };   /* (two entries with two-byte UTF-8 sequences: bytes and UTF-16 units differ) */
    static const char *P[] = { "P=1", "Q= q", "=C:=x" };
    for (int envb = 0; envb <= 1; envb++) for (int np = 0; np <= 3; np++) for (int mask = 0; mask < 128; mask += (np == 2 ? 1 : 9)) {
      const char *pe[4] = { 0 }; for (int i = 0; i < np; i++) pe[i] = P[i];
      const char *ex[8] = { 0 }; int n = 0; for (int b = 0; b < 7; b++) if (mask & (1 << b)) ex[n++] = E[b];
      const char *a[] = { "prog", NULL };
      run_case(a, envb, ex, pe);
      if (mask == 0) { const char *au[] = { "prog", "caf\xC3\xA9 x", "\xC2\xA3", NULL }; run_case(au, envb, ex, pe); }
      if (mask == 0) run_case(a, envb, NULL, pe);
    }
  } else if (!strcmp(mode, "envrace")) {
    /* the process environment grows between any two snapshots one start takes */
    static const char *E[] = { "a=a", "caf\xC3\xA9=\xC3\xBC", "B=two words" };
    static const char *P[] = { "P=1", "Q= q", "=C:=x" };
    env_grow = 1;
    for (int envb = 0; envb <= 1; envb++) for (int np = 0; np <= 3; np++) for (int mask = 0; mask < 8; mask++) {
      const char *pe[4] = { 0 }; for (int i = 0; i < np; i++) pe[i] = P[i];
      const char *ex[4] = { 0 }; int n = 0; for (int b = 0; b < 3; b++) if (mask & (1 << b)) ex[n++] = E[b];
      const char *a[] = { "prog", "x y", NULL };
      run_case(a, envb, ex, pe);
      if (mask == 0) run_case(a, envb, NULL, pe);
    }
    env_grow = 0;
  } else if (!strcmp(mode, "random")) {
    int N = L, seed = argc > 3 ? atoi(argv[3]) : 1, maxlen = argc > 4 ? atoi(argv[4]) : 60;
    srand((unsigned) seed);
    for (int c = 0; c < N; c++) {
      int na = 1 + rand() % 4; const char *a[8] = { "prog" };
      for (int i = 1; i <= na; i++) { int l = rand() % maxlen; char *s = malloc((size_t) l + 1); for (int q = 0; q < l; q++) s[q] = ALPHA[rand() % NA]; s[l] = 0; a[i] = s; }
      a[na + 1] = NULL;
      run_case(a, 1, NULL, noenv);
      for (int i = 1; i <= na; i++) free((char *) a[i]);
    }
  }
  return 0;
}
