/* mock C API for C19: records what the C++ wrapper hands to the C layer and returns scripted values */
#include <reproc/reproc.h>
#include <errno.h>
#include <stdlib.h>
#include <string.h>

const int REPROC_EINVAL = -EINVAL;
const int REPROC_EPIPE = -EPIPE;
const int REPROC_ETIMEDOUT = -ETIMEDOUT;
const int REPROC_ENOMEM = -ENOMEM;
const int REPROC_EWOULDBLOCK = -EWOULDBLOCK;
const int REPROC_SIGKILL = 128 + 9;
const int REPROC_SIGTERM = 128 + 15;
const int REPROC_INFINITE = -1;
const int REPROC_DEADLINE = -2;

struct reproc_t { int dummy; };

/* what the mock saw */
reproc_options mock_options;
const char *const *mock_argv;
int mock_argv_null;
char mock_argv_copy[32][128]; int mock_argc;
char mock_env_copy[32][128]; int mock_envc; int mock_env_null;
int mock_ret;
int mock_calls;
char mock_last[32];
int mock_int_arg, mock_int_arg2;
size_t mock_size_arg;
const void *mock_ptr_arg;
reproc_stop_actions mock_stop;
reproc_event_source mock_sources[8]; size_t mock_nsources;
int mock_new_calls, mock_destroy_calls;

reproc_t *reproc_new(void) { mock_new_calls++; return calloc(1, sizeof(reproc_t)); }
reproc_t *reproc_destroy(reproc_t *p) { if (p) mock_destroy_calls++; free(p); return NULL; }

/* like the C API: a call without a handle is a misuse, answered with the invalid-argument error and nothing else */
#define NOHANDLE(p) do { if (!(p)) return REPROC_EINVAL; } while (0)
int reproc_start(reproc_t *p, const char *const *argv, reproc_options options)
{
  NOHANDLE(p);
  strcpy(mock_last, "start"); mock_calls++;
  mock_options = options;
  mock_argv = argv; mock_argv_null = argv == NULL; mock_argc = 0;
  if (argv) for (; argv[mock_argc] && mock_argc < 32; mock_argc++) strncpy(mock_argv_copy[mock_argc], argv[mock_argc], 127);
  mock_envc = 0; mock_env_null = options.env.extra == NULL;
  if (options.env.extra) for (; options.env.extra[mock_envc] && mock_envc < 32; mock_envc++) strncpy(mock_env_copy[mock_envc], options.env.extra[mock_envc], 127);
  return mock_ret;
}
int reproc_pid(reproc_t *p) { NOHANDLE(p); strcpy(mock_last, "pid"); mock_calls++; return mock_ret; }
int reproc_poll(reproc_event_source *s, size_t n, int timeout)
{
  strcpy(mock_last, "poll"); mock_calls++;
  mock_nsources = n < 8 ? n : 8; mock_int_arg = timeout;
  for (size_t i = 0; i < mock_nsources; i++) { mock_sources[i] = s[i]; s[i].events = (int) (i + 1) * 3; }
  return mock_ret;
}
int reproc_read(reproc_t *p, REPROC_STREAM stream, uint8_t *buffer, size_t size)
{ NOHANDLE(p); strcpy(mock_last, "read"); mock_calls++; mock_int_arg = (int) stream; mock_ptr_arg = buffer; mock_size_arg = size; return mock_ret; }
int reproc_write(reproc_t *p, const uint8_t *buffer, size_t size)
{ NOHANDLE(p); strcpy(mock_last, "write"); mock_calls++; mock_ptr_arg = buffer; mock_size_arg = size; return mock_ret; }
int reproc_close(reproc_t *p, REPROC_STREAM stream) { NOHANDLE(p); strcpy(mock_last, "close"); mock_calls++; mock_int_arg = (int) stream; return mock_ret; }
/* (a wrapper that retried would loop for ever on a constant answer: after a few calls the mock gives in; the call count tells) */
int reproc_wait(reproc_t *p, int timeout) { NOHANDLE(p); strcpy(mock_last, "wait"); mock_calls++; mock_int_arg = timeout; return mock_calls > 4 ? 0 : mock_ret; }
int reproc_terminate(reproc_t *p) { NOHANDLE(p); strcpy(mock_last, "terminate"); mock_calls++; return mock_ret; }
int reproc_kill(reproc_t *p) { NOHANDLE(p); strcpy(mock_last, "kill"); mock_calls++; return mock_ret; }
int reproc_stop(reproc_t *p, reproc_stop_actions stop) { NOHANDLE(p); strcpy(mock_last, "stop"); mock_calls++; mock_stop = stop; return mock_ret; }
const char *reproc_strerror(int e) { (void) e; return "mock"; }
