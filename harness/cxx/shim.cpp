// C++ API shim for the script driver (--cxx): the same TLC-generated scripts are replayed through reproc++
// (reproc::process, reproc::drain, reproc::run from /repo's headers) instead of the C API.
#include <reproc++/drain.hpp>
#include <reproc++/reproc.hpp>
#include <reproc++/run.hpp>
#include <reproc/drain.h>
#include <reproc/reproc.h>

#include <cstdlib>
#include <cstring>
#include <string>
#include <system_error>

// (scripts deliberately carry out-of-range enumerators; read them as plain integers)
static int raw(const void *p) { int v; memcpy(&v, p, sizeof v); return v; }
static int rc(const std::error_code &ec, long value) { return ec ? -ec.value() : static_cast<int>(value); }

static reproc::redirect redir(const reproc_redirect &r)
{
  reproc::redirect d = {};
  d.type = static_cast<enum reproc::redirect::type>(raw(&r.type)); d.handle = r.handle; d.file = r.file; d.path = r.path;
  return d;
}
static reproc::stop_actions stops(const reproc_stop_actions &s)
{
  return { { static_cast<reproc::stop>(raw(&s.first.action)), reproc::milliseconds(s.first.timeout) },
           { static_cast<reproc::stop>(raw(&s.second.action)), reproc::milliseconds(s.second.timeout) },
           { static_cast<reproc::stop>(raw(&s.third.action)), reproc::milliseconds(s.third.timeout) } };
}
static reproc::options opts(const reproc_options &o)
{
  reproc::options x;
  x.working_directory = o.working_directory;
  x.env.behavior = static_cast<reproc::env::type>(raw(&o.env.behavior));
  x.env.extra = reproc::env(o.env.extra);
  x.redirect.in = redir(o.redirect.in); x.redirect.out = redir(o.redirect.out); x.redirect.err = redir(o.redirect.err);
  x.redirect.parent = o.redirect.parent; x.redirect.discard = o.redirect.discard; x.redirect.file = o.redirect.file; x.redirect.path = o.redirect.path;
  x.stop = stops(o.stop);
  x.deadline = reproc::milliseconds(o.deadline);
  x.input = reproc::input(o.input.data, o.input.size);
  x.nonblocking = o.nonblocking;
  return x;
}

struct csink {
  reproc_sink s;
  std::error_code operator()(reproc::stream st, const uint8_t *b, size_t n) const
  {
    int r = s.function(static_cast<REPROC_STREAM>(st), b, n, s.context);
    if (r == 0) return {};
    return { r < 0 ? -r : r, std::system_category() };
  }
};

extern "C" {
void *cxx_new(void) { return new reproc::process(); }
void cxx_destroy(void *p) { delete static_cast<reproc::process *>(p); }
int cxx_start(void *p, const char *const *argv, reproc_options o)
{
  reproc::process *pr = static_cast<reproc::process *>(p);
  if (o.fork) { auto r = pr->fork(opts(o)); return r.second ? -r.second.value() : (r.first ? 0 : 1); }
  std::error_code ec = pr->start(reproc::arguments(argv), opts(o));
  return ec ? -ec.value() : 1;
}
int cxx_pid(void *p) { auto r = static_cast<reproc::process *>(p)->pid(); return rc(r.second, r.first); }
int cxx_wait(void *p, int to) { auto r = static_cast<reproc::process *>(p)->wait(reproc::milliseconds(to)); return rc(r.second, r.first); }
int cxx_terminate(void *p) { return rc(static_cast<reproc::process *>(p)->terminate(), 0); }
int cxx_kill(void *p) { return rc(static_cast<reproc::process *>(p)->kill(), 0); }
int cxx_stop(void *p, reproc_stop_actions s) { auto r = static_cast<reproc::process *>(p)->stop(stops(s)); return rc(r.second, r.first); }
int cxx_close(void *p, int s) { return rc(static_cast<reproc::process *>(p)->close(static_cast<reproc::stream>(s)), 0); }
int cxx_read(void *p, int s, uint8_t *b, size_t n) { auto r = static_cast<reproc::process *>(p)->read(static_cast<reproc::stream>(s), b, n); return rc(r.second, static_cast<long>(r.first)); }
int cxx_write(void *p, const uint8_t *b, size_t n) { auto r = static_cast<reproc::process *>(p)->write(b, n); return rc(r.second, static_cast<long>(r.first)); }
int cxx_poll1(void *p, int interests, int timeout, int *events)
{
  auto r = static_cast<reproc::process *>(p)->poll(interests, reproc::milliseconds(timeout));
  *events = r.first;
  return r.second ? -r.second.value() : (r.first ? 1 : 0);
}
int cxx_drain(void *p, reproc_sink out, reproc_sink err)
{
  std::error_code ec = reproc::drain(*static_cast<reproc::process *>(p), csink{ out }, csink{ err });
  return ec ? -ec.value() : 0;
}
int cxx_drain_string(void *p, char **out1, int use1, reproc_sink other)
{
  /* stdout into the C++ string sink (content handed back as a malloc'ed C string), stderr into a C sink */
  std::string s(*out1 ? *out1 : "");
  (void) use1;
  std::error_code ec = reproc::drain(*static_cast<reproc::process *>(p), reproc::sink::string(s), csink{ other });
  free(*out1);
  *out1 = strdup(s.c_str());
  return ec ? -ec.value() : 0;
}
int cxx_run(const char *const *argv, reproc_options o, reproc_sink out, reproc_sink err)
{
  auto r = reproc::run(reproc::arguments(argv), opts(o), csink{ out }, csink{ err });
  return r.second ? -r.second.value() : r.first;
}
}
