// C19 driver: drives the reproc++ wrapper (compiled from /repo) over a mock C API and compares what
// the C layer received / what the wrapper returned with the prediction of spec/Wrapper.tla.
#include <reproc++/reproc.hpp>
#include <reproc/reproc.h>

#include <cstdio>
#include <cstring>
#include <map>
#include <string>
#include <system_error>
#include <vector>

extern "C" {
#include "json.h"
extern reproc_options mock_options;
extern int mock_argv_null, mock_argc, mock_envc, mock_env_null, mock_ret, mock_calls, mock_int_arg;
extern char mock_argv_copy[32][128], mock_env_copy[32][128], mock_last[32];
extern size_t mock_size_arg, mock_nsources;
extern const void *mock_ptr_arg;
extern reproc_stop_actions mock_stop;
extern reproc_event_source mock_sources[8];
extern int mock_new_calls, mock_destroy_calls;
}

static char FILES[16];
static uint8_t DATA[16];
static FILE *file_of(long id) { return id > 0 ? reinterpret_cast<FILE *>(&FILES[id]) : nullptr; }
static long id_of_file(FILE *f) { return f ? static_cast<long>(reinterpret_cast<char *>(f) - FILES) : 0; }
static std::vector<std::string> keepstr;
static const char *cstr(jv *v) { if (!v || v->t != J_STR) return nullptr; keepstr.emplace_back(v->s); return keepstr.back().c_str(); }

static reproc::redirect mk_redirect(jv *r)
{
  reproc::redirect d = {};
  if (!r) return d;
  d.type = static_cast<enum reproc::redirect::type>(r->a[0]->i);
  d.handle = static_cast<int>(r->a[1]->i);
  d.file = file_of(r->a[2]->i);
  d.path = r->a[3]->t == J_STR && r->a[3]->s[0] ? cstr(r->a[3]) : nullptr;
  return d;
}
static reproc::stop_actions mk_stop(jv *a)
{
  reproc::stop_actions s = {};
  reproc::stop_action *v[3] = { &s.first, &s.second, &s.third };
  for (int i = 0; a && i < 3; i++) { v[i]->action = static_cast<reproc::stop>(a->a[i]->a[0]->i); v[i]->timeout = reproc::milliseconds(static_cast<int>(a->a[i]->a[1]->i)); }
  return s;
}

static jv *redirect_obs(const reproc_redirect &r)
{
  jv *a = j_mkarr();
  j_push(a, j_mkint(r.type)); j_push(a, j_mkint(r.handle)); j_push(a, j_mkint(id_of_file(r.file))); j_push(a, j_mkstr(r.path ? r.path : ""));
  return a;
}
static jv *received(void)
{
  const reproc_options &o = mock_options;
  jv *x = j_mkobj();
  j_put(x, "wd", j_mkstr(o.working_directory ? o.working_directory : ""));
  j_put(x, "envb", j_mkint(o.env.behavior));
  jv *e = j_mkarr(); for (int i = 0; i < mock_envc; i++) j_push(e, j_mkstr(mock_env_copy[i]));
  j_put(x, "envx", e); j_put(x, "envnull", j_mkint(mock_env_null));
  j_put(x, "rin", redirect_obs(o.redirect.in)); j_put(x, "rout", redirect_obs(o.redirect.out)); j_put(x, "rerr", redirect_obs(o.redirect.err));
  j_put(x, "parent", j_mkint(o.redirect.parent)); j_put(x, "discard", j_mkint(o.redirect.discard));
  j_put(x, "file", j_mkint(id_of_file(o.redirect.file))); j_put(x, "path", j_mkstr(o.redirect.path ? o.redirect.path : ""));
  jv *st = j_mkarr();
  const reproc_stop_action *sv[3] = { &o.stop.first, &o.stop.second, &o.stop.third };
  for (int i = 0; i < 3; i++) { jv *t = j_mkarr(); j_push(t, j_mkint(sv[i]->action)); j_push(t, j_mkint(sv[i]->timeout)); j_push(st, t); }
  j_put(x, "stop", st);
  j_put(x, "dl", j_mkint(o.deadline));
  jv *in = j_mkarr(); j_push(in, j_mkint(o.input.data ? static_cast<long>(o.input.data - DATA) : -1)); j_push(in, j_mkint(static_cast<long>(o.input.size)));
  j_put(x, "input", in);
  j_put(x, "fork", j_mkint(o.fork)); j_put(x, "nb", j_mkint(o.nonblocking));
  jv *av = j_mkarr(); for (int i = 0; i < mock_argc; i++) j_push(av, j_mkstr(mock_argv_copy[i]));
  j_put(x, "argv", av); j_put(x, "argvnull", j_mkint(mock_argv_null));
  return x;
}

static jv *ec_obs(long value, const std::error_code &ec, int r)
{
  jv *a = j_mkarr();
  j_push(a, j_mkint(value));
  j_push(a, j_mkint(ec ? 0 : 1));
  j_push(a, j_mkint(ec.value()));
  j_push(a, j_mkint(r < 0 ? (ec == static_cast<std::errc>(-r) ? 1 : 0) : 1));
  return a;
}

static jv *run(jv *s)
{
  const char *op = j_str(s, "op", "");
  mock_ret = static_cast<int>(j_int(s, "ret", 1)); mock_calls = 0;
  jv *out = j_mkobj();
  if (!strcmp(op, "start") || !strcmp(op, "fork") || !strcmp(op, "clone_start") || !strcmp(op, "restart")) {
    jv *o = j_get(s, "o");
    reproc::options opt;
    opt.env.behavior = static_cast<reproc::env::type>(j_int(o, "envb", 0));
    const char *envmode = j_str(s, "envmode", "none");
    jv *ex = j_get(o, "envx");
    std::vector<std::pair<std::string, std::string>> pairs;
    std::map<std::string, std::string> mp;
    std::vector<const char *> rawenv;
    if (ex) for (int i = 0; i < ex->n; i++) {
      std::string kv = ex->a[i]->s; size_t eq = kv.find('=');
      pairs.emplace_back(kv.substr(0, eq), eq == std::string::npos ? "" : kv.substr(eq + 1));
      mp[pairs.back().first] = pairs.back().second;
      rawenv.push_back(cstr(ex->a[i]));
    }
    rawenv.push_back(nullptr);
    if (!strcmp(envmode, "vec")) opt.env.extra = pairs;
    else if (!strcmp(envmode, "map")) opt.env.extra = mp;
    else if (!strcmp(envmode, "raw")) opt.env.extra = rawenv.data();
    opt.working_directory = cstr(j_get(o, "wd")) && j_get(o, "wd")->s[0] ? cstr(j_get(o, "wd")) : nullptr;
    opt.redirect.in = mk_redirect(j_get(o, "rin")); opt.redirect.out = mk_redirect(j_get(o, "rout")); opt.redirect.err = mk_redirect(j_get(o, "rerr"));
    opt.redirect.parent = j_int(o, "parent", 0) != 0; opt.redirect.discard = j_int(o, "discard", 0) != 0;
    opt.redirect.file = file_of(j_int(o, "file", 0));
    opt.redirect.path = j_get(o, "path") && j_get(o, "path")->s[0] ? cstr(j_get(o, "path")) : nullptr;
    opt.stop = mk_stop(j_get(o, "stop"));
    opt.deadline = reproc::milliseconds(static_cast<int>(j_int(o, "dl", 0)));
    opt.timeout = reproc::milliseconds(static_cast<int>(j_int(o, "tmo", 0)));
    jv *in = j_get(o, "input");
    if (in && in->a[0]->i >= 0) opt.input = reproc::input(DATA + in->a[0]->i, static_cast<size_t>(in->a[1]->i));
    opt.nonblocking = j_int(o, "nb", 0) != 0;
    jv *args = j_get(s, "args");
    std::vector<std::string> av;
    std::vector<const char *> rawargs;
    if (args) for (int i = 0; i < args->n; i++) { av.emplace_back(args->a[i]->s); rawargs.push_back(cstr(args->a[i])); }
    rawargs.push_back(nullptr);
    reproc::process p;
    std::error_code ec; long val = 0;
    const char *am = j_str(s, "argmode", "vec");
    /* "held": the conversion is made first and must be a copy - the caller then overwrites and shrinks its container */
    reproc::arguments held(av);
    reproc::arguments nullargs(static_cast<const char *const *>(nullptr));   /* "null": no argument vector at all */
    std::vector<std::string> av2 = av;
    if (!strcmp(am, "held")) { for (auto &x : av) for (auto &ch : x) ch = '#'; av.clear(); }
    if (!strcmp(op, "restart")) {
      mock_ret = static_cast<int>(j_int(s, "ret1", -22));
      std::error_code ec1 = p.start(av, opt);
      j_put(out, "first", ec_obs(0, ec1, mock_ret));
      mock_ret = static_cast<int>(j_int(s, "ret", 1));
      ec = p.start(av, opt);
      j_put(out, "ncalls", j_mkint(mock_calls));
    }
    else if (!strcmp(op, "fork")) { auto r = p.fork(opt); ec = r.second; val = r.first ? 1 : 0; }
    else if (!strcmp(op, "clone_start")) {
      reproc::options c = reproc::options::clone(opt);
      ec = !strcmp(am, "null") ? p.start(nullargs, c) : !strcmp(am, "raw") ? p.start(rawargs.data(), c) : !strcmp(am, "held") ? p.start(held, c) : p.start(av, c);
    } else ec = !strcmp(am, "null") ? p.start(nullargs, opt) : !strcmp(am, "raw") ? p.start(rawargs.data(), opt) : !strcmp(am, "held") ? p.start(held, opt) : p.start(av, opt);
    j_put(out, "c", received());
    j_put(out, "res", ec_obs(val, ec, mock_ret));
    return out;
  }
  if (!strcmp(op, "method")) {
    const char *m = j_str(s, "m", "");
    reproc::process p;
    std::error_code ec; long val = -999;
    jv *seen = j_mkarr();
    if (!strcmp(m, "pid")) { auto r = p.pid(); val = r.first; ec = r.second; }
    else if (!strcmp(m, "wait")) { auto r = p.wait(reproc::milliseconds(static_cast<int>(j_int(s, "arg", 0)))); val = r.first; ec = r.second; j_push(seen, j_mkint(mock_int_arg)); }
    else if (!strcmp(m, "terminate")) { ec = p.terminate(); val = 0; }
    else if (!strcmp(m, "kill")) { ec = p.kill(); val = 0; }
    else if (!strcmp(m, "close")) { ec = p.close(static_cast<reproc::stream>(j_int(s, "arg", 0))); val = 0; j_push(seen, j_mkint(mock_int_arg)); }
    else if (!strcmp(m, "stop")) {
      auto r = p.stop(mk_stop(j_get(s, "stop"))); val = r.first; ec = r.second;
      const reproc_stop_action *sv[3] = { &mock_stop.first, &mock_stop.second, &mock_stop.third };
      for (int i = 0; i < 3; i++) { j_push(seen, j_mkint(sv[i]->action)); j_push(seen, j_mkint(sv[i]->timeout)); }
    }
    else if (!strcmp(m, "read")) { auto r = p.read(static_cast<reproc::stream>(j_int(s, "arg", 1)), DATA + 2, static_cast<size_t>(j_int(s, "size", 5))); val = mock_ret >= 0 ? static_cast<long>(r.first) : 0; ec = r.second; j_push(seen, j_mkint(mock_int_arg)); j_push(seen, j_mkint(static_cast<long>(static_cast<const uint8_t *>(mock_ptr_arg) - DATA))); j_push(seen, j_mkint(static_cast<long>(mock_size_arg))); }
    else if (!strcmp(m, "write")) { auto r = p.write(DATA + 3, static_cast<size_t>(j_int(s, "size", 5))); val = mock_ret >= 0 ? static_cast<long>(r.first) : 0; ec = r.second; j_push(seen, j_mkint(static_cast<long>(static_cast<const uint8_t *>(mock_ptr_arg) - DATA))); j_push(seen, j_mkint(static_cast<long>(mock_size_arg))); }
    else if (!strcmp(m, "poll1")) { auto r = p.poll(static_cast<int>(j_int(s, "arg", 0)), reproc::milliseconds(static_cast<int>(j_int(s, "to", 0)))); val = mock_ret >= 0 ? r.first : 0; ec = r.second; j_push(seen, j_mkint(mock_sources[0].interests)); j_push(seen, j_mkint(mock_int_arg)); j_push(seen, j_mkint(static_cast<long>(mock_nsources))); }
    else if (!strcmp(m, "polln")) {
      reproc::event::source src[2] = { { reproc::process(), 5, 0 }, { reproc::process(), 10, 0 } };
      ec = reproc::poll(src, 2, reproc::milliseconds(static_cast<int>(j_int(s, "to", 0)))); val = mock_ret >= 0 ? src[0].events * 100 + src[1].events : 0;
      j_push(seen, j_mkint(mock_sources[0].interests)); j_push(seen, j_mkint(mock_sources[1].interests)); j_push(seen, j_mkint(mock_int_arg)); j_push(seen, j_mkint(static_cast<long>(mock_nsources)));
    }
    j_put(out, "seen", seen);
    j_put(out, "last", j_mkstr(mock_last));
    j_put(out, "res", ec_obs(val, ec, mock_ret));
    return out;
  }
  if (!strcmp(op, "consts")) {
    jv *a = j_mkarr();
    long v[] = { reproc::signal::kill, reproc::signal::terminate, reproc::infinite.count(), reproc::deadline.count(),
                 static_cast<long>(reproc::stop::noop), static_cast<long>(reproc::stop::wait), static_cast<long>(reproc::stop::terminate), static_cast<long>(reproc::stop::kill),
                 reproc::redirect::default_, reproc::redirect::pipe, reproc::redirect::parent, reproc::redirect::discard, reproc::redirect::stdout_,
                 reproc::redirect::handle_, reproc::redirect::file_, reproc::redirect::path_,
                 static_cast<long>(reproc::stream::in), static_cast<long>(reproc::stream::out), static_cast<long>(reproc::stream::err),
                 reproc::event::in, reproc::event::out, reproc::event::err, reproc::event::exit, reproc::event::deadline,
                 reproc::env::extend, reproc::env::empty };
    for (long q : v) j_push(a, j_mkint(q));
    jv *c = j_mkarr();
    long w[] = { REPROC_SIGKILL, REPROC_SIGTERM, REPROC_INFINITE, REPROC_DEADLINE, REPROC_STOP_NOOP, REPROC_STOP_WAIT, REPROC_STOP_TERMINATE, REPROC_STOP_KILL,
                 REPROC_REDIRECT_DEFAULT, REPROC_REDIRECT_PIPE, REPROC_REDIRECT_PARENT, REPROC_REDIRECT_DISCARD, REPROC_REDIRECT_STDOUT,
                 REPROC_REDIRECT_HANDLE, REPROC_REDIRECT_FILE, REPROC_REDIRECT_PATH, REPROC_STREAM_IN, REPROC_STREAM_OUT, REPROC_STREAM_ERR,
                 REPROC_EVENT_IN, REPROC_EVENT_OUT, REPROC_EVENT_ERR, REPROC_EVENT_EXIT, REPROC_EVENT_DEADLINE, REPROC_ENV_EXTEND, REPROC_ENV_EMPTY };
    for (long q : w) j_push(c, j_mkint(q));
    j_put(out, "cxx", a); j_put(out, "c", c);
    j_put(out, "same", j_mkint(j_eq(a, c)));
    return out;
  }
  j_put(out, "error", j_mkstr("bad op"));
  return out;
}

static bool subset_eq(jv *exp, jv *obs)
{
  if (exp->t != J_OBJ) return j_eq(exp, obs);
  if (!obs || obs->t != J_OBJ) return false;
  for (int i = 0; i < exp->n; i++) { jv *x = j_get(obs, exp->k[i]); if (!x || !subset_eq(exp->a[i], x)) return false; }
  return true;
}

int main()
{
  char *line = nullptr; size_t cap = 0; ssize_t len; int idx = 0;
  static char buf[1 << 16];
  while ((len = getline(&line, &cap, stdin)) > 0) {
    if (len < 3) continue;
    idx++;
    j_reset(); keepstr.clear(); keepstr.reserve(256);
    if (!strncmp(line, "<<\"BEH\", \"", 10)) {
      char *o = line, *q = line + 10;
      while (*q && !(q[0] == '"' && q[1] == '>' && q[2] == '>')) { if (*q == '\\' && q[1]) q++; *o++ = *q++; }
      *o = 0;
    }
    const char *err;
    jv *s = j_parse(line, &err);
    if (!s) { fprintf(stderr, "cxxdrv: json error %s\n", err); return 2; }
    jv *obs = run(s);
    jv *exp = j_get(s, "exp");
    jv *v = j_mkobj();
    j_put(v, "i", j_mkint(idx));
    bool ok = exp && subset_eq(exp, obs);
    j_put(v, "ok", j_mkint(ok ? 1 : 0));
    if (!ok) {
      j_put(v, "kind", j_mkstr("mismatch")); j_put(v, "fn", j_mkstr(j_str(s, "op", "?")));
      jv *keys = j_mkarr();
      if (exp && exp->t == J_OBJ) for (int i = 0; i < exp->n; i++) {
        jv *x = j_get(obs, exp->k[i]);
        if (!x || !subset_eq(exp->a[i], x)) {
          if (exp->a[i]->t == J_OBJ && x && x->t == J_OBJ) { for (int q = 0; q < exp->a[i]->n; q++) { jv *y = j_get(x, exp->a[i]->k[q]); if (!y || !j_eq(exp->a[i]->a[q], y)) j_push(keys, j_mkstr(exp->a[i]->k[q])); } }
          else j_push(keys, j_mkstr(exp->k[i]));
        }
      }
      j_put(v, "keys", keys); j_put(v, "exp", exp); j_put(v, "obs", obs); j_put(v, "call", s); j_put(v, "script", s);
    }
    j_print(v, buf, sizeof buf);
    puts(buf);
  }
  return 0;
}
