#!/usr/bin/env python3
"""Demonstrates that the trace specifications are bound to what they read (guidance: corrupt one recorded field,
remove one event, and show the trace is rejected).  Results -> selftest_binding.json"""
import json, os, re, shutil, subprocess, sys, tempfile
sys.path.insert(0, "/verif")
import genfree, vlib
SPEC = "/verif/spec"

def tlc_matched(tracefile, cap=8):
    d = tempfile.mkdtemp(prefix="bind_")
    cfg = os.path.join(d, "c.cfg")
    open(cfg, "w").write(open(os.path.join(SPEC, "CoreTrace.cfg")).read().replace("PipeCap = 8", "PipeCap = %d" % cap))
    env = dict(os.environ); env["TRACE"] = tracefile
    r = subprocess.run(["java", "-Xss64m", "-cp", vlib.TLA_CP, "tlc2.TLC", "-workers", "1", "-metadir", os.path.join(d, "m"), "-config", cfg, os.path.join(SPEC, "CoreTrace.tla")],
                       capture_output=True, text=True, cwd=SPEC, env=env)
    shutil.rmtree(d, ignore_errors=True)
    m = re.search(r'<<"MATCHED", (\d+), (\d+)>>', r.stdout)
    return (int(m.group(1)), int(m.group(2))) if m else None

def main():
    exe = vlib.build_driver("plain")
    ps = genfree.plans(7, 40, 8)
    r = subprocess.run([exe], input=("\n".join(json.dumps(p) for p in ps) + "\n").encode(), capture_output=True)
    lines = []
    for ln in r.stdout.decode().splitlines():
        v = json.loads(ln)
        if v.get("ok") == 1:
            lines.append({"e": "cfg"}); lines += v["trace"][1:]
    d = tempfile.mkdtemp(prefix="bindt_")
    res = {}
    def run(name, ls):
        f = os.path.join(d, name + ".ndjson")
        open(f, "w").write("\n".join(json.dumps(x) for x in ls) + "\n")
        m = tlc_matched(f)
        res[name] = {"lines": len(ls), "matched": m[0], "accepted": m[0] > m[1]}
    run("original", lines)
    # corrupt a return value
    i = next(k for k, x in enumerate(lines) if x.get("e") == "obs" and x["call"].get("fn") in ("wait", "stop", "read", "poll") and k > 40)
    c = json.loads(json.dumps(lines)); c[i]["o"]["r"] = c[i]["o"]["r"] + 1 if isinstance(c[i]["o"]["r"], int) else 0
    if "rev" in c[i]["o"]: c[i]["o"]["rev"][0] += 1
    run("corrupted_return_value", c)
    # corrupt a time stamp
    i = next(k for k, x in enumerate(lines) if x.get("e") == "obs" and k > 60)
    c = json.loads(json.dumps(lines)); c[i]["o"]["t"] += 1
    run("corrupted_time", c)
    # remove an environment event
    # (an event nobody observes afterwards - e.g. output that is never read - can legitimately be missing; a child's exit
    #  is always observable in the next call's child-state projection)
    i = next(k for k, x in enumerate(lines) if x.get("e") == "env" and x.get("k") == "exit" and k > 30
             and any(y.get("e") == "obs" for y in lines[k + 1:k + 6]) and lines[k + 1].get("e") != "cfg")
    run("removed_env_event", lines[:i] + lines[i + 1:])
    # remove a begin record (a call the trace does not show)
    i = next(k for k, x in enumerate(lines) if x.get("e") == "begin" and k > 50)
    run("removed_call", lines[:i] + lines[i + 1:])
    shutil.rmtree(d, ignore_errors=True)
    ok = res["original"]["accepted"] and not any(v["accepted"] for k, v in res.items() if k != "original")
    res["binding_demonstrated"] = ok
    json.dump(res, open("/verif/selftest_binding.json", "w"), indent=1)
    print(json.dumps(res, indent=1))
    return 0 if ok else 1

if __name__ == "__main__":
    sys.exit(main())
