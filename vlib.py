"""Shared infrastructure for /verif checks: building the harness against the
current working tree of the repository, running TLC, streaming exported
behaviours into driver pools, evidence and verdict bookkeeping."""
import glob
import hashlib
import json
import os
import re
import shutil
import subprocess
import sys
import time

VERIF = os.path.dirname(os.path.abspath(__file__))
REPO = os.environ.get("VERIF_REPO", "/repo")
CACHE = os.path.join(VERIF, ".cache")
OUT = os.environ.get("VERIF_OUT", os.path.join(VERIF, "out"))
EVIDENCE = os.environ.get("VERIF_EVIDENCE", os.path.join(VERIF, "evidence"))
SPEC = os.path.join(VERIF, "spec")
HARNESS = os.path.join(VERIF, "harness")
NCPU = min(16, os.cpu_count() or 4)
TLA_CP = "/opt/veriftools/tla/tla2tools.jar:/opt/veriftools/tla/CommunityModules-deps.jar"

ALLOWED_PURE = {
    "strlen", "memcpy", "strcpy", "strchr", "abs", "__errno_location", "__xpg_strerror_r", "strerror_r",
    "stdin", "stdout", "stderr", "environ", "_GLOBAL_OFFSET_TABLE_", "memset", "memmove", "strcmp", "strncmp",
    "memcmp", "strncpy", "strnlen", "strrchr", "__stack_chk_fail", "__assert_fail", "sigaddset", "sigdelset",
    "sigismember", "__tls_get_addr", "strerror", "__errno", "snprintf", "getenv", "strtol", "strtoul", "strtoll", "atoi", "atol",
    "pthread_mutex_init", "pthread_mutex_destroy", "pthread_mutex_lock", "pthread_mutex_unlock", "pthread_mutex_trylock", "pthread_once", "pthread_self",
    "__ctype_b_loc", "qsort", "bsearch", "memchr", "strstr", "strcat", "strncat", "sprintf", "strcspn", "strspn", "strpbrk", "__isoc99_sscanf",
}


class Infra(Exception):
    """Infrastructure failure (exit 2, never a VIOLATION)."""


def sh(cmd, **kw):
    return subprocess.run(cmd, shell=isinstance(cmd, str), **kw)


def wrap_syms():
    return [l.strip() for l in open(os.path.join(HARNESS, "wrap.txt")) if l.strip()]


def lib_sources(repo=None):
    repo = repo or REPO
    srcs = sorted(f for f in glob.glob(os.path.join(repo, "reproc/src/*.c")) if "windows" not in os.path.basename(f))
    if not srcs:
        raise Infra("no library sources under %s" % repo)
    return srcs


def tree_hash(files, extra=""):
    h = hashlib.sha256(extra.encode())
    for f in sorted(files):
        h.update(f.encode())
        with open(f, "rb") as fh:
            h.update(fh.read())
    return h.hexdigest()[:20]


SAN_FLAGS = {
    "plain": ["-O1", "-g"],
    "asan": ["-O1", "-g", "-fsanitize=address,undefined", "-fno-sanitize-recover=undefined", "-fno-omit-frame-pointer"],
}
LIB_DEFS = ["-DNDEBUG", "-DREPROC_MULTITHREADED", "-fno-builtin", "-U_FORTIFY_SOURCE", "-std=gnu99", "-w"]


def build_driver_cxx(flavor="plain", repo=None):
    """The script driver with the C++ shim: library C sources + reproc++ from the working tree, linked with g++ over the seam."""
    repo = repo or REPO
    cxx_srcs = [os.path.join(repo, "reproc++/src/reproc.cpp"), os.path.join(HARNESS, "cxx/shim.cpp")]
    hdrs = glob.glob(os.path.join(repo, "reproc++/include/reproc++/*.hpp")) + glob.glob(os.path.join(repo, "reproc++/include/reproc++/detail/*.hpp"))
    return build_driver(flavor, repo, extra_harness=hdrs, name="vdrvxx", defs=("-DWITH_CXX",), cxx=cxx_srcs)


def build_driver(flavor="plain", repo=None, extra_harness=(), name="vdrv", defs=(), cxx=()):
    """Compile the library sources from the working tree + simk + driver, link with --wrap.
    Returns the path of the binary. Cached by content hash."""
    repo = repo or REPO
    srcs = lib_sources(repo)
    hdrs = glob.glob(os.path.join(repo, "reproc/src/*.h")) + glob.glob(os.path.join(repo, "reproc/include/reproc/*.h"))
    hsrc = [os.path.join(HARNESS, f) for f in ("simk.c", "simk.h", "json.c", "json.h", "driver.c", "wrap.txt")] + list(extra_harness) + list(cxx)
    key = tree_hash(srcs + hdrs + hsrc, flavor + name + " ".join(defs))
    d = os.path.join(CACHE, key)
    exe = os.path.join(d, name)
    if os.path.exists(exe):
        return exe
    tmp = d + ".tmp%d" % os.getpid()
    shutil.rmtree(tmp, ignore_errors=True)
    os.makedirs(tmp)
    inc = ["-I" + os.path.join(repo, "reproc/include"), "-I" + os.path.join(repo, "reproc/src"), "-I" + HARNESS]
    flags = SAN_FLAGS[flavor]
    objs = []
    procs = []
    for s in srcs:
        o = os.path.join(tmp, "lib_" + os.path.basename(s)[:-2] + ".o")
        objs.append(o)
        procs.append((s, subprocess.Popen(["gcc", "-c"] + flags + LIB_DEFS + list(defs) + inc + [s, "-o", o], stderr=subprocess.PIPE)))
    for s in [f for f in hsrc if f.endswith(".c")]:
        o = os.path.join(tmp, "h_" + os.path.basename(s)[:-2] + ".o")
        objs.append(o)
        procs.append((s, subprocess.Popen(["gcc", "-c"] + flags + ["-std=gnu11", "-Wall", "-Wno-unused-function"] + list(defs) + inc + [s, "-o", o], stderr=subprocess.PIPE)))
    for s in cxx:
        o = os.path.join(tmp, "x_" + os.path.basename(s)[:-4] + ".o")
        objs.append(o)
        procs.append((s, subprocess.Popen(["g++", "-c"] + flags + ["-std=c++11", "-w"] + inc + ["-I" + os.path.join(repo, "reproc++/include"), s, "-o", o], stderr=subprocess.PIPE)))
    for s, p in procs:
        _, err = p.communicate()
        if p.returncode != 0:
            shutil.rmtree(tmp, ignore_errors=True)
            raise Infra("compile failed: %s\n%s" % (s, err.decode()[-3000:]))
    # every undefined symbol of the library must be wrapped or known pure
    libobjs = [o for o in objs if os.path.basename(o).startswith("lib_")]
    nm = subprocess.run(["nm", "-u"] + libobjs, capture_output=True, text=True).stdout
    und = set(re.findall(r"\bU (\w+)", nm))
    defined = set(re.findall(r"\b[TDBRCVW] (\w+)", subprocess.run(["nm"] + libobjs, capture_output=True, text=True).stdout))
    wraps = set(wrap_syms())
    unknown = sorted(s for s in und - defined - wraps - ALLOWED_PURE if not s.startswith("__asan") and not s.startswith("__ubsan") and not s.startswith("__sanitizer"))
    if unknown:
        shutil.rmtree(tmp, ignore_errors=True)
        raise Infra("library calls functions the seam does not cover: %s" % unknown)
    wl = ["-Wl,--wrap=" + s for s in wrap_syms()]
    r = subprocess.run(["g++" if cxx else "gcc"] + flags + objs + wl + ["-lpthread", "-o", os.path.join(tmp, name)], capture_output=True, text=True)
    if r.returncode != 0:
        shutil.rmtree(tmp, ignore_errors=True)
        raise Infra("link failed:\n" + r.stderr[-3000:])
    shutil.rmtree(d, ignore_errors=True)
    os.rename(tmp, d)
    return exe


def prune_cache(keep=12):
    if not os.path.isdir(CACHE):
        return
    ds = sorted((os.path.join(CACHE, d) for d in os.listdir(CACHE)), key=os.path.getmtime)
    for d in ds[:-keep]:
        shutil.rmtree(d, ignore_errors=True)


ASAN_ENV = {"ASAN_OPTIONS": "detect_leaks=0:abort_on_error=0:exitcode=66:allocator_may_return_null=1", "UBSAN_OPTIONS": "halt_on_error=1:exitcode=67:print_stacktrace=1"}


def build_cxx(flavor="asan", repo=None):
    """C19: reproc++ from the working tree over the mock C API (harness/cxx)."""
    repo = repo or REPO
    srcs = [os.path.join(repo, "reproc++/src/reproc.cpp")]
    hdrs = glob.glob(os.path.join(repo, "reproc++/include/reproc++/*.hpp")) + glob.glob(os.path.join(repo, "reproc++/include/reproc++/detail/*.hpp")) + \
        glob.glob(os.path.join(repo, "reproc/include/reproc/*.h"))
    hsrc = [os.path.join(HARNESS, "cxx/cxxdrv.cpp"), os.path.join(HARNESS, "cxx/mock_reproc.c"), os.path.join(HARNESS, "json.c"), os.path.join(HARNESS, "json.h")]
    key = tree_hash(srcs + hdrs + hsrc, "cxx" + flavor)
    d = os.path.join(CACHE, key)
    exe = os.path.join(d, "cxxdrv")
    if os.path.exists(exe):
        return exe
    tmp = d + ".tmp%d" % os.getpid()
    shutil.rmtree(tmp, ignore_errors=True)
    os.makedirs(tmp)
    inc = ["-I" + os.path.join(repo, "reproc++/include"), "-I" + os.path.join(repo, "reproc/include"), "-I" + HARNESS]
    flags = SAN_FLAGS[flavor]
    cmds = [["gcc", "-c"] + flags + ["-std=gnu11"] + inc + [os.path.join(HARNESS, "cxx/mock_reproc.c"), "-o", os.path.join(tmp, "mock.o")],
            ["gcc", "-c"] + flags + ["-std=gnu11"] + inc + [os.path.join(HARNESS, "json.c"), "-o", os.path.join(tmp, "json.o")],
            ["g++", "-c"] + flags + ["-std=c++11", "-w"] + inc + [srcs[0], "-o", os.path.join(tmp, "reprocxx.o")],
            ["g++", "-c"] + flags + ["-std=c++11"] + inc + [os.path.join(HARNESS, "cxx/cxxdrv.cpp"), "-o", os.path.join(tmp, "cxxdrv.o")]]
    procs = [subprocess.Popen(c, stderr=subprocess.PIPE) for c in cmds]
    for c, p in zip(cmds, procs):
        _, err = p.communicate()
        if p.returncode != 0:
            shutil.rmtree(tmp, ignore_errors=True)
            raise Infra("compile failed: %s\n%s" % (" ".join(c[-3:]), err.decode()[-3000:]))
    r = subprocess.run(["g++"] + flags + [os.path.join(tmp, x) for x in ("mock.o", "json.o", "reprocxx.o", "cxxdrv.o")] + ["-o", os.path.join(tmp, "cxxdrv")],
                       capture_output=True, text=True)
    if r.returncode != 0:
        shutil.rmtree(tmp, ignore_errors=True)
        raise Infra("link failed:\n" + r.stderr[-3000:])
    shutil.rmtree(d, ignore_errors=True)
    os.rename(tmp, d)
    return exe


def build_win(repo=None, tsan=False):
    """C18: process.windows.c + utf.windows.c from the working tree, UNCHANGED, against harness/win/windows.h (ASan+UBSan;
    tsan=True: ThreadSanitizer instead, for the "threads" mode)."""
    repo = repo or REPO
    srcs = [os.path.join(repo, "reproc/src/process.windows.c"), os.path.join(repo, "reproc/src/utf.windows.c")]
    hdrs = glob.glob(os.path.join(repo, "reproc/src/*.h")) + glob.glob(os.path.join(repo, "reproc/include/reproc/*.h"))
    hsrc = [os.path.join(HARNESS, "win/windrv.c"), os.path.join(HARNESS, "win/windows.h")]
    key = tree_hash(srcs + hdrs + hsrc, "win-tsan" if tsan else "win")
    d = os.path.join(CACHE, key)
    exe = os.path.join(d, "windrv")
    if os.path.exists(exe):
        return exe
    tmp = d + ".tmp%d" % os.getpid()
    shutil.rmtree(tmp, ignore_errors=True)
    os.makedirs(tmp)
    r = subprocess.run(["gcc", "-std=gnu99"] + (["-O1", "-g", "-fsanitize=thread"] if tsan else SAN_FLAGS["asan"]) +
                       ["-D_WIN32", "-DNDEBUG", "-w", "-I" + os.path.join(HARNESS, "win"),
                        "-I" + os.path.join(repo, "reproc/include"), "-I" + os.path.join(repo, "reproc/src"), hsrc[0]] + srcs +
                       ["-Wl,--wrap=calloc", "-Wl,--wrap=malloc", "-Wl,--wrap=realloc", "-lpthread", "-o", os.path.join(tmp, "windrv")], capture_output=True, text=True)
    if r.returncode != 0:
        shutil.rmtree(tmp, ignore_errors=True)
        raise Infra("windows sources do not compile against the stub header:\n" + r.stderr[-3000:])
    shutil.rmtree(d, ignore_errors=True)
    os.rename(tmp, d)
    return exe


def build_thr(repo=None):
    """C20: real-thread harness built with ThreadSanitizer from the working tree."""
    repo = repo or REPO
    srcs = lib_sources(repo)
    hdrs = glob.glob(os.path.join(repo, "reproc/src/*.h")) + glob.glob(os.path.join(repo, "reproc/include/reproc/*.h"))
    hsrc = [os.path.join(HARNESS, "thr/thrtest.c")]
    key = tree_hash(srcs + hdrs + hsrc, "thr")
    d = os.path.join(CACHE, key)
    exe = os.path.join(d, "thrtest")
    if os.path.exists(exe):
        return exe
    tmp = d + ".tmp%d" % os.getpid()
    shutil.rmtree(tmp, ignore_errors=True)
    os.makedirs(tmp)
    r = subprocess.run(["gcc", "-std=gnu99", "-O1", "-g", "-fsanitize=thread", "-DNDEBUG", "-DREPROC_MULTITHREADED", "-w",
                        "-I" + os.path.join(repo, "reproc/include"), "-I" + os.path.join(repo, "reproc/src")] + hsrc + srcs +
                       ["-lpthread", "-o", os.path.join(tmp, "thrtest")], capture_output=True, text=True)
    if r.returncode != 0:
        shutil.rmtree(tmp, ignore_errors=True)
        raise Infra("thread harness does not compile:\n" + r.stderr[-3000:])
    shutil.rmtree(d, ignore_errors=True)
    os.rename(tmp, d)
    return exe


def build_real(root, repo=None):
    """Real-kernel replayer: the library compiled normally (no seam) + harness/real/realdrv.c, and the helper child vchild
    (reports into <root>)."""
    repo = repo or REPO
    srcs = lib_sources(repo)
    hdrs = glob.glob(os.path.join(repo, "reproc/src/*.h")) + glob.glob(os.path.join(repo, "reproc/include/reproc/*.h"))
    hsrc = [os.path.join(HARNESS, "real/realdrv.c"), os.path.join(HARNESS, "real/vchild.c"), os.path.join(HARNESS, "json.c"), os.path.join(HARNESS, "json.h")]
    key = tree_hash(srcs + hdrs + hsrc, "real" + root)
    d = os.path.join(CACHE, key)
    if not os.path.exists(os.path.join(d, "realdrv")):
        tmp = d + ".tmp%d" % os.getpid()
        shutil.rmtree(tmp, ignore_errors=True)
        os.makedirs(tmp)
        r = subprocess.run(["gcc", "-std=gnu99", "-O1", "-g", "-DNDEBUG", "-DREPROC_MULTITHREADED", "-w", "-I" + os.path.join(repo, "reproc/include"),
                            "-I" + os.path.join(repo, "reproc/src"), "-I" + HARNESS, hsrc[0], hsrc[2]] + srcs + ["-lpthread", "-o", os.path.join(tmp, "realdrv")],
                           capture_output=True, text=True)
        r2 = subprocess.run(["gcc", "-O1", "-w", '-DDUMPDIR="%s"' % root, hsrc[1], "-o", os.path.join(tmp, "vchild")], capture_output=True, text=True)
        if r.returncode or r2.returncode:
            shutil.rmtree(tmp, ignore_errors=True)
            raise Infra("real-kernel harness does not compile:\n" + r.stderr[-2000:] + r2.stderr[-1000:])
        shutil.rmtree(d, ignore_errors=True)
        os.rename(tmp, d)
    return os.path.join(d, "realdrv"), os.path.join(d, "vchild")


def make_real_root(root, vchild):
    shutil.rmtree(root, ignore_errors=True)
    for sub in ("w/sub", "sub", "d/sub", "bin", "x"):     # (x: a directory of the caller without the relative programs)
        os.makedirs(os.path.join(root, sub))
    for p in ("bin/c", "w/c", "w/sub/c", "c", "sub/c", "d/c", "d/sub/c"):   # (d/...: the same names exist under the child's directory)
        shutil.copy(vchild, os.path.join(root, p))
    for f in ("t0", "t1", "t2", "o5", "o6", "o9", "o11", "o30", "o31", "o50", "o63"):
        open(os.path.join(root, f), "w").close()
