#!/usr/bin/env python3
"""Regenerates MANIFEST.json from the registry in families.py (single source of truth)."""
import json, os, sys
sys.path.insert(0, os.path.dirname(os.path.abspath(__file__)))
import families

ALL = ["C%02d" % i for i in range(1, 21)]
checks = []
for p in ALL:
    if p not in families.PROPS:
        continue
    info = families.PROPS[p]
    checks.append({
        "property_id": p,
        "quick_cmd": "python3 check.py check %s --tier quick" % p,
        "thorough_cmd": "python3 check.py check %s --tier thorough" % p,
        "evidence_file": "/verif/evidence/%s.json" % p,
        "replay_cmd_template": "python3 check.py replay {path}",
        "engine": "tlc+simk",
        "level_claimed": {"category": "model_checking", "text": info.get("level_text", families.LEVEL_TEXT), "design_ref": info.get("design_ref", "DESIGN.md 6 (%s)" % p)},
        "level_note": info.get("level_note", "Trusted: TLC, the simulated kernel harness/simk.c (libc-level, byte-granular pipes, virtual clock), the partial-order argument of DESIGN 3.2; exhaustive only within the constants recorded in the evidence file."),
        "technique": info.get("technique", "TLA+ contract model checked by TLC; every call-completing transition exported and replayed against the code over a simulated kernel (conformance)"),
    })
na = [{"property_id": p, "reason": families.NOT_APPLICABLE.get(p, "check not built yet in this stage; see DESIGN.md 6 for the plan")} for p in ALL if p not in families.PROPS]
m = {
    "version": 1,
    "setup_cmd": "python3 check.py setup",
    "hooks": {"guard": "REPROC_VERIF", "enable": "none needed: the library sources are compiled unchanged and interposed at link time (-Wl,--wrap=<libc symbols>, harness/wrap.txt)",
              "baseline_off_cmd": "python3 /verif/check.py baseline", "source_commits": [], "add_only": True},
    "engines": [{"name": "tlc+simk", "path": "/verif/check.py", "serves_properties": [c["property_id"] for c in checks],
                 "kind_free_text": "TLC model checking of spec/*.tla; behaviours exported by TLC are replayed against reproc (built from /repo's working tree) linked over a simulated kernel; traces recorded from the code are validated by TLC"}],
    "checks": checks,
    "not_applicable": na,
    "notes": "See DESIGN.md. known_findings.json lists genuine defects (open: reported as KNOWN-FINDING; fixed: repaired by a fix: commit in /repo).",
}
json.dump(m, open(os.path.join(os.path.dirname(os.path.abspath(__file__)), "MANIFEST.json"), "w"), indent=1)
print("MANIFEST.json: %d checks, %d not_applicable" % (len(checks), len(na)))
