#!/usr/bin/env python3
"""For every 'fixed' entry of known_findings.json: revert that one fix in a scratch worktree of /repo HEAD and run the
property's quick check against it (VERIF_REPO). The check must report a VIOLATION: the repaired defect is still detected
if it ever returns. Results -> selftest_fixes.json"""
import json, os, shutil, subprocess, sys, tempfile, time
K = json.load(open("/verif/known_findings.json"))["findings"]
only = set(sys.argv[1:])
res = []
for k in K:
    if k.get("status") != "fixed" or (only and k["id"] not in only):
        continue
    wt = tempfile.mkdtemp(prefix="fixwt_"); os.rmdir(wt)
    scratch = tempfile.mkdtemp(prefix="fixout_")
    try:
        subprocess.run("git -C /repo worktree add -q --detach %s HEAD" % wt, shell=True, check=True)
        r = subprocess.run("git -C %s -c user.name=x -c user.email=x@x revert --no-commit %s" % (wt, k["commit"]), shell=True, capture_output=True, text=True)
        if r.returncode != 0:
            res.append({"id": k["id"], "error": "revert failed: " + r.stderr[-300:]}); continue
        env = dict(os.environ); env.update({"VERIF_REPO": wt, "VERIF_OUT": scratch + "/out", "VERIF_EVIDENCE": scratch + "/ev"})
        props = [k["property"]] + k.get("also", [])
        for p in props:
            t = time.time()
            c = subprocess.run(["python3", "/verif/check.py", "check", p, "--tier", "quick"], capture_output=True, text=True, env=env, cwd="/verif")
            v = [l for l in c.stdout.splitlines() if l.startswith("VIOLATION")]
            w = [l for l in c.stdout.splitlines() if l.startswith("  what")]
            res.append({"id": k["id"], "property": p, "commit": k["commit"], "detected": c.returncode == 1 and bool(v), "exit": c.returncode,
                        "what": (w[0][:300] if w else ""), "wall_s": round(time.time() - t, 1)})
            print(json.dumps(res[-1]), flush=True)
    finally:
        subprocess.run("git -C /repo worktree remove --force %s" % wt, shell=True)
        shutil.rmtree(wt, ignore_errors=True); shutil.rmtree(scratch, ignore_errors=True)
json.dump(res, open("/verif/selftest_fixes.json", "w"), indent=1)
